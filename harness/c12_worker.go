package main

// C12: persistent in-process `cue` workers.  Starting a 37 MB binary per command dominates the
// run time on a loaded machine, so most CLI cases are executed by 16 long-lived copies of this
// harness (VERIF_C12_WORKER=1), each of which runs one command at a time exactly as
// cmd.Main does — cmd.New(args) followed by Run — in its own working directory, with stdout
// captured through SetOut and stdin through SetInput.  One case in eight still goes through a
// fresh process per command (VERIF_C12_CUE=1 → os.Exit(cmd.Main())), so the process-level exit
// status and the real stdout/stderr of the binary stay covered.

import (
	"bytes"
	"context"
	"encoding/json"
	"fmt"
	"os"
	"os/exec"
	"path/filepath"
	"sync"

	cuecmd "cuelang.org/go/cmd/cue/cmd"
	"cuelang.org/go/cue/errors"
)

type c12Req struct {
	Dir   string
	Stdin []byte
	Args  []string
}

type c12Resp struct {
	Stdout, Stderr []byte
	Code           int
}

func init() {
	if os.Getenv("VERIF_C12_WORKER") == "1" {
		os.Unsetenv("VERIF_C12_WORKER")
		c12WorkerMain()
		os.Exit(0)
	}
}

func c12WorkerMain() {
	in, out := os.NewFile(3, "req"), os.NewFile(4, "resp")
	dec, enc := json.NewDecoder(in), json.NewEncoder(out)
	for {
		var rq c12Req
		if dec.Decode(&rq) != nil {
			return
		}
		enc.Encode(c12RunInProc(rq))
	}
}

func c12RunInProc(rq c12Req) (resp c12Resp) {
	var out bytes.Buffer
	defer func() {
		if e := recover(); e != nil {
			resp = c12Resp{Stdout: out.Bytes(), Stderr: []byte(fmt.Sprintf("panic: %v", e)), Code: 2}
		}
	}()
	if err := os.Chdir(rq.Dir); err != nil {
		return c12Resp{Stderr: []byte(err.Error()), Code: -1}
	}
	c, _ := cuecmd.New(rq.Args)
	c.SetOut(&out)
	stdin := rq.Stdin
	c.SetInput(bytes.NewReader(stdin)) // never the worker's own stdin
	var errb bytes.Buffer
	code := 0
	if err := c.Run(context.Background()); err != nil {
		if err != cuecmd.ErrPrintedError {
			errors.Print(&errb, err, &errors.Config{Cwd: rq.Dir})
		}
		code = 1
	}
	return c12Resp{Stdout: out.Bytes(), Stderr: errb.Bytes(), Code: code}
}

type c12Worker struct {
	cmd *exec.Cmd
	enc *json.Encoder
	dec *json.Decoder
	w   *os.File
	r   *os.File
}

type c12Pool struct {
	env  *c12Env
	free chan *c12Worker
	mu   sync.Mutex
	all  []*c12Worker
}

func (p *c12Pool) spawn() (*c12Worker, error) {
	reqR, reqW, err := os.Pipe()
	if err != nil {
		return nil, err
	}
	respR, respW, err := os.Pipe()
	if err != nil {
		return nil, err
	}
	cmd := exec.Command(p.env.self)
	cmd.Env = append(p.env.childEnv(), "VERIF_C12_WORKER=1")
	cmd.ExtraFiles = []*os.File{reqR, respW}
	cmd.Dir = p.env.scratch
	if err := cmd.Start(); err != nil {
		return nil, err
	}
	reqR.Close()
	respW.Close()
	w := &c12Worker{cmd: cmd, enc: json.NewEncoder(reqW), dec: json.NewDecoder(respR), w: reqW, r: respR}
	p.mu.Lock()
	p.all = append(p.all, w)
	p.mu.Unlock()
	return w, nil
}

func newC12Pool(env *c12Env, n int) (*c12Pool, error) {
	p := &c12Pool{env: env, free: make(chan *c12Worker, n)}
	for i := 0; i < n; i++ {
		w, err := p.spawn()
		if err != nil {
			return nil, err
		}
		p.free <- w
	}
	return p, nil
}

func (p *c12Pool) run(dir string, stdin []byte, args []string) c12Res {
	w := <-p.free
	var resp c12Resp
	err := w.enc.Encode(c12Req{Dir: dir, Stdin: stdin, Args: args})
	if err == nil {
		err = w.dec.Decode(&resp)
	}
	if err != nil {
		// the worker died (os.Exit / fatal error inside the command): report and replace it
		w.w.Close()
		w.r.Close()
		w.cmd.Process.Kill()
		w.cmd.Wait()
		if nw, e2 := p.spawn(); e2 == nil {
			p.free <- nw
		}
		return c12Res{nil, []byte("panic: worker process died: " + err.Error()), 2}
	}
	p.free <- w
	return c12Res{resp.Stdout, resp.Stderr, resp.Code}
}

func (p *c12Pool) close() {
	p.mu.Lock()
	defer p.mu.Unlock()
	for _, w := range p.all {
		w.w.Close()
		w.cmd.Process.Kill()
		w.cmd.Wait()
	}
}

func (e *c12Env) childEnv() []string {
	return []string{
		"HOME=" + e.scratch,
		"CUE_CACHE_DIR=" + filepath.Join(e.scratch, "cache"),
		"CUE_CONFIG_DIR=" + filepath.Join(e.scratch, "config"),
		"PATH=" + os.Getenv("PATH"),
		"GOMAXPROCS=2",
		"CUE_REGISTRY=none.invalid",
	}
}
