package main

// C02: isolated worker processes.
//
// The harness re-execs itself (`<self> C02 -replay worker -out DIR`); the worker reads one
// request per line (JSON) from stdin and answers one line per request.  For every request it
// runs the pipeline parse → compile → evaluate → validate → export (CUE, JSON, YAML) `Runs`
// times, each time with a fresh cue.Context, and reports a digest of every run's complete
// output (plus the text of the first run and of the first differing run).
//
// What a worker does NOT survive is exactly what the property forbids and what the parent
// observes from outside:
//   * a panic that escapes the public API is caught per stage by `recover` and reported as
//     such in the answer (kind "panic") — the worker lives on;
//   * a fatal error of the Go runtime (stack overflow, concurrent map access, out of memory)
//     kills the process: the parent sees EOF + the exit status + the tail of stderr;
//   * a case that burns more CPU time than the limit makes the worker's watchdog exit with
//     status 98 (CPU time, not wall time: the machine may be loaded); a case that makes no
//     progress at all (deadlock) is killed by the parent's generous wall-clock deadline;
//   * resident memory above the limit makes the watchdog exit with status 97.

import (
	"bufio"
	"bytes"
	"crypto/sha256"
	"encoding/hex"
	"encoding/json"
	"fmt"
	"io"
	"os"
	"os/exec"
	"runtime"
	"runtime/debug"
	"sort"
	"strconv"
	"strings"
	"sync"
	"sync/atomic"
	"syscall"
	"time"

	"cuelang.org/go/cue"
	"cuelang.org/go/cue/cuecontext"
	"cuelang.org/go/cue/errors"
	"cuelang.org/go/cue/format"
	"cuelang.org/go/cue/parser"
	cueyaml "cuelang.org/go/encoding/yaml"
)

type c02Req struct {
	ID   int    `json:"id"`
	Src  []byte `json:"src"`
	Runs int    `json:"runs"`
	// CPUms is the CPU-time budget for the whole request.
	CPUms int `json:"cpums"`
	// Full asks for the complete output text of the first run.
	Full bool `json:"full"`
	// Known (parent side only): see c02Case.known
	Known bool `json:"-"`
}

type c02Resp struct {
	ID      int      `json:"id"`
	Digests []string `json:"digests"`         // one per run
	Panic   string   `json:"panic,omitempty"` // first panic that escaped an API call (stage: value @ frames)
	Stage   string   `json:"stage"`           // how far the first run got: parse-error|build-error|eval-error|incomplete|ok
	Out     string   `json:"out,omitempty"`   // output of run 1 (if Full or if runs differ)
	Out2    string   `json:"out2,omitempty"`  // output of the first run that differs from run 1
	CPUms   int64    `json:"cpu"`
}

// c02Pipeline runs the whole pipeline once with a fresh context and returns its complete
// observable output as text, the first escaped panic (or "") and the stage reached.
func c02Pipeline(src []byte) (out string, panicked string, stage string) {
	var b strings.Builder
	guard := func(name string, f func()) {
		defer func() {
			if r := recover(); r != nil {
				msg := fmt.Sprintf("%s: %v @ %s", name, r, c02Frames())
				fmt.Fprintf(&b, "## %s: PANIC %v\n", name, r)
				if panicked == "" {
					panicked = msg
				}
			}
		}()
		f()
	}
	cfg := &errors.Config{}
	ctx := cuecontext.New()
	stage = "parse-error"
	var v cue.Value
	ok := false
	guard("parse", func() {
		f, err := parser.ParseFile("in.cue", src, parser.ParseComments)
		if err != nil {
			fmt.Fprintf(&b, "## parse error\n%s", errors.Details(err, cfg))
			return
		}
		stage = "build-error"
		guard("format-ast", func() {
			bs, err := format.Node(f)
			if err != nil {
				fmt.Fprintf(&b, "## format error\n%s", errors.Details(err, cfg))
			} else {
				fmt.Fprintf(&b, "## formatted\n%s", bs)
			}
		})
		guard("build", func() {
			v = ctx.BuildFile(f)
			ok = true
		})
	})
	if !ok {
		return b.String(), panicked, stage
	}
	guard("err", func() {
		if err := v.Err(); err != nil {
			fmt.Fprintf(&b, "## value error\n%s", errors.Details(err, cfg))
		} else {
			stage = "eval-error"
		}
	})
	guard("validate", func() {
		if err := v.Validate(); err != nil {
			fmt.Fprintf(&b, "## validate\n%s", errors.Details(err, cfg))
		} else if stage == "eval-error" {
			stage = "incomplete"
		}
	})
	guard("validate-concrete", func() {
		if err := v.Validate(cue.Concrete(true)); err != nil {
			fmt.Fprintf(&b, "## validate concrete\n%s", errors.Details(err, cfg))
		} else if stage == "incomplete" {
			stage = "ok"
		}
	})
	syn := func(name string, opts ...cue.Option) {
		guard(name, func() {
			n := v.Syntax(opts...)
			bs, err := format.Node(n)
			if err != nil {
				fmt.Fprintf(&b, "## %s error\n%s", name, errors.Details(err, cfg))
				return
			}
			fmt.Fprintf(&b, "## %s\n%s\n", name, bs)
		})
	}
	syn("cue-all", cue.All(), cue.Docs(true))
	if bytes.HasPrefix(src, []byte(c02SharedMarker)) {
		// heavily shared DAG: the remaining stages print or visit the expanded tree
		syn("cue-raw", cue.Raw())
		if stage == "" {
			stage = "ok"
		}
		return b.String(), panicked, stage
	}
	syn("cue-eval", cue.Final(), cue.Docs(true), cue.Attributes(true), cue.Optional(true), cue.Definitions(true))
	syn("cue-concrete", cue.Final(), cue.Concrete(true))
	syn("cue-raw", cue.Raw())
	guard("json", func() {
		bs, err := v.MarshalJSON()
		if err != nil {
			fmt.Fprintf(&b, "## json error\n%s", errors.Details(err, cfg))
			return
		}
		fmt.Fprintf(&b, "## json\n%s\n", bs)
	})
	guard("yaml", func() {
		bs, err := cueyaml.Encode(v)
		if err != nil {
			fmt.Fprintf(&b, "## yaml error\n%s", errors.Details(err, cfg))
			return
		}
		fmt.Fprintf(&b, "## yaml\n%s\n", bs)
	})
	guard("walk", func() {
		// what API users do: iterate all fields, look at kinds and errors
		n := 0
		v.Walk(func(x cue.Value) bool {
			n++
			_ = x.IncompleteKind()
			if n > 20000 {
				return false
			}
			return true
		}, nil)
		fmt.Fprintf(&b, "## walk %d\n", n)
	})
	return b.String(), panicked, stage
}

// c02Frames: the innermost non-runtime frames of the panicking goroutine (function names
// only: stable across runs, no addresses).
func c02Frames() string {
	pc := make([]uintptr, 48)
	n := runtime.Callers(3, pc)
	fr := runtime.CallersFrames(pc[:n])
	var names []string
	for {
		f, more := fr.Next()
		fn := f.Function
		if fn != "" && !strings.HasPrefix(fn, "runtime.") && !strings.Contains(fn, "c02") {
			if i := strings.LastIndex(fn, "/"); i >= 0 {
				fn = fn[i+1:]
			}
			names = append(names, fmt.Sprintf("%s:%d", fn, f.Line))
		}
		if !more || len(names) >= 6 {
			break
		}
	}
	return strings.Join(names, " < ")
}

func c02Digest(s string) string {
	h := sha256.Sum256([]byte(s))
	return hex.EncodeToString(h[:8])
}

func c02CPU() time.Duration {
	var ru syscall.Rusage
	syscall.Getrusage(syscall.RUSAGE_SELF, &ru)
	return time.Duration(ru.Utime.Nano() + ru.Stime.Nano())
}

func c02RSS() int64 {
	b, err := os.ReadFile("/proc/self/statm")
	if err != nil {
		return 0
	}
	f := strings.Fields(string(b))
	if len(f) < 2 {
		return 0
	}
	n, _ := strconv.ParseInt(f[1], 10, 64)
	return n * int64(os.Getpagesize())
}

const (
	c02ExitMem  = 97
	c02ExitTime = 98
)

// c02Worker is the worker process' main loop.
func c02Worker() {
	// a small stack limit makes unbounded recursion cheap to detect; the CONFIRMATION run of a
	// stack overflow uses Go's default limit (1 GB), so that deep-but-finite recursion on a
	// large input is not reported
	maxStack := 128 << 20
	if s := os.Getenv("C02_MAXSTACK"); s != "" {
		if n, err := strconv.Atoi(s); err == nil {
			maxStack = n
		}
	}
	debug.SetMaxStack(maxStack)
	memLimit := int64(3) << 30
	if s := os.Getenv("C02_RSS_LIMIT"); s != "" {
		if n, err := strconv.ParseInt(s, 10, 64); err == nil {
			memLimit = n
		}
	}
	var deadline atomic.Int64 // CPU nanoseconds at which the current request is over budget; 0 = idle
	go func() {
		for {
			time.Sleep(20 * time.Millisecond)
			if c02RSS() > memLimit {
				fmt.Fprintln(os.Stderr, "C02-WATCHDOG: resident memory above limit")
				os.Exit(c02ExitMem)
			}
			if d := deadline.Load(); d != 0 && int64(c02CPU()) > d {
				fmt.Fprintln(os.Stderr, "C02-WATCHDOG: CPU time above limit")
				os.Exit(c02ExitTime)
			}
		}
	}()
	in := bufio.NewReaderSize(os.Stdin, 1<<20)
	out := bufio.NewWriter(os.Stdout)
	for {
		line, err := in.ReadBytes('\n')
		if len(line) > 1 {
			var rq c02Req
			if json.Unmarshal(line, &rq) == nil {
				start := c02CPU()
				if rq.CPUms > 0 {
					deadline.Store(int64(start) + int64(rq.CPUms)*int64(time.Millisecond))
				}
				rs := c02Resp{ID: rq.ID}
				var first string
				for i := 0; i < max(rq.Runs, 1); i++ {
					o, p, st := c02Pipeline(rq.Src)
					if i == 0 {
						first, rs.Stage = o, st
						if rq.Full {
							rs.Out = o
						}
					} else if o != first && rs.Out2 == "" {
						rs.Out, rs.Out2 = first, o
					}
					if p != "" && rs.Panic == "" {
						rs.Panic = p
					}
					rs.Digests = append(rs.Digests, c02Digest(o))
				}
				deadline.Store(0)
				rs.CPUms = int64((c02CPU() - start) / time.Millisecond)
				b, _ := json.Marshal(rs)
				out.Write(b)
				out.WriteByte('\n')
				out.Flush()
			}
		}
		if err != nil {
			return
		}
	}
}

// ---- parent side ------------------------------------------------------------------

type c02Proc struct {
	cmd    *exec.Cmd
	in     io.WriteCloser
	out    *bufio.Reader
	stderr *c02Tail
	served int
}

// c02Tail keeps the first and the last few KiB written to it.
type c02Tail struct {
	mu   sync.Mutex
	head []byte
	tail []byte
}

func (t *c02Tail) Write(p []byte) (int, error) {
	t.mu.Lock()
	defer t.mu.Unlock()
	if len(t.head) < 12000 {
		k := min(len(p), 12000-len(t.head))
		t.head = append(t.head, p[:k]...)
	}
	t.tail = append(t.tail, p...)
	if len(t.tail) > 2000 {
		t.tail = t.tail[len(t.tail)-2000:]
	}
	return len(p), nil
}

func (t *c02Tail) String() string {
	t.mu.Lock()
	defer t.mu.Unlock()
	return string(t.head)
}

func c02Self() string {
	if p, err := os.Executable(); err == nil {
		return p
	}
	return os.Args[0]
}

func c02Start(dir string, env ...string) (*c02Proc, error) {
	os.MkdirAll(dir, 0o777)
	cmd := exec.Command(c02Self(), "C02", "-replay", "worker", "-out", dir)
	cmd.Env = append(os.Environ(), "GOMEMLIMIT=1GiB", "GOMAXPROCS=2", "GOTRACEBACK=single")
	cmd.Env = append(cmd.Env, env...)
	cmd.Dir = dir
	tail := &c02Tail{}
	cmd.Stderr = tail
	in, err := cmd.StdinPipe()
	if err != nil {
		return nil, err
	}
	outp, err := cmd.StdoutPipe()
	if err != nil {
		return nil, err
	}
	if err := cmd.Start(); err != nil {
		return nil, err
	}
	return &c02Proc{cmd: cmd, in: in, out: bufio.NewReaderSize(outp, 1<<20), stderr: tail}, nil
}

func (p *c02Proc) kill() {
	p.in.Close()
	p.cmd.Process.Kill()
	p.cmd.Wait()
}

// c02Outcome is what the parent learned about one request.
type c02Outcome struct {
	Resp *c02Resp
	// Kind is "" when the worker answered; otherwise how it failed:
	// "crash" (process died: fatal error / unrecovered panic), "stack-overflow", "timeout"
	// (CPU budget), "deadlock" (no answer within the wall deadline while using no CPU budget),
	// "memory".
	Kind   string
	Detail string
	// Sig: for a stack overflow, the set of functions on the runaway recursion cycle
	Sig string
}

// c02RecursionSig extracts, from the Go runtime's "stack overflow" report, the sorted set of
// distinct cuelang.org functions among the innermost frames: the recursion cycle. It names
// the ROOT CAUSE of a runaway recursion independently of the input that triggered it.
func c02RecursionSig(stderr string) string {
	if !strings.Contains(stderr, "stack overflow") {
		return ""
	}
	count := map[string]int{}
	frames := 0
	for _, line := range strings.Split(stderr, "\n") {
		if !strings.HasPrefix(line, "cuelang.org/go/") {
			continue
		}
		frames++
		if frames > 40 {
			break
		}
		fn := line
		if i := strings.LastIndex(fn, "("); i > 0 {
			fn = fn[:i]
		}
		if i := strings.LastIndex(fn, "/"); i >= 0 {
			fn = fn[i+1:]
		}
		count[fn]++
	}
	// functions on the cycle repeat; the leaf in which the stack happened to run out does not
	var names []string
	for fn, n := range count {
		if n >= 2 {
			names = append(names, fn)
		}
	}
	sort.Strings(names)
	return strings.Join(names, "+")
}

// ask sends one request and waits for the answer with a wall-clock deadline.
func (p *c02Proc) ask(rq *c02Req, wall time.Duration) c02Outcome {
	b, _ := json.Marshal(rq)
	b = append(b, '\n')
	type res struct {
		line []byte
		err  error
	}
	ch := make(chan res, 1)
	go func() {
		if _, err := p.in.Write(b); err != nil {
			ch <- res{nil, err}
			return
		}
		line, err := p.out.ReadBytes('\n')
		ch <- res{line, err}
	}()
	var r res
	lastCPU, lastT := p.cpu(), time.Now()
wait:
	for {
		select {
		case r = <-ch:
			break wait
		case <-time.After(wall / 6):
			// A worker that is still burning CPU is not deadlocked (its own CPU watchdog will
			// stop it); only a worker that made no CPU progress for a whole `wall` interval is.
			if cur := p.cpu(); cur-lastCPU > 300*time.Millisecond {
				lastCPU, lastT = cur, time.Now()
			} else if time.Since(lastT) > wall {
				p.kill()
				return c02Outcome{Kind: "deadlock", Detail: fmt.Sprintf("no answer and no CPU progress for %v", wall)}
			}
		}
	}
	{
		if r.err == nil {
			var rs c02Resp
			if json.Unmarshal(r.line, &rs) == nil && rs.ID == rq.ID {
				p.served++
				return c02Outcome{Resp: &rs}
			}
			return c02Outcome{Kind: "crash", Detail: "garbled answer: " + string(bytes.TrimSpace(r.line))}
		}
		// the process died
		p.in.Close()
		err := p.cmd.Wait()
		code := -1
		if ee, ok := err.(*exec.ExitError); ok {
			code = ee.ExitCode()
		}
		se := p.stderr.String()
		kind := "crash"
		switch {
		case code == c02ExitMem:
			kind = "memory"
		case code == c02ExitTime:
			kind = "timeout"
		case strings.Contains(se, "stack overflow"):
			kind = "stack-overflow"
		case strings.Contains(se, "out of memory") || strings.Contains(se, "cannot allocate memory"):
			kind = "memory"
		}
		return c02Outcome{Kind: kind, Detail: fmt.Sprintf("exit %d: %s", code, c02FirstLines(se, 12)), Sig: c02RecursionSig(se)}
	}
}

// cpu: user+system time the worker process has used so far (from /proc/<pid>/stat)
func (p *c02Proc) cpu() time.Duration {
	b, err := os.ReadFile(fmt.Sprintf("/proc/%d/stat", p.cmd.Process.Pid))
	if err != nil {
		return 0
	}
	s := string(b)
	if i := strings.LastIndex(s, ")"); i >= 0 {
		f := strings.Fields(s[i+1:])
		if len(f) > 13 {
			u, _ := strconv.ParseInt(f[11], 10, 64)
			k, _ := strconv.ParseInt(f[12], 10, 64)
			return time.Duration(u+k) * 10 * time.Millisecond
		}
	}
	return 0
}

func c02FirstLines(s string, n int) string {
	lines := strings.Split(s, "\n")
	var keep []string
	for _, l := range lines {
		l = strings.TrimRight(l, " \t")
		if l == "" {
			continue
		}
		// drop addresses to keep the text stable
		keep = append(keep, l)
		if len(keep) >= n {
			break
		}
	}
	return strings.Join(keep, " | ")
}

// c02Pool is a set of worker processes; Run executes requests on them, restarting a worker
// that died and re-running the offending request ALONE in a fresh worker to confirm.
type c02Pool struct {
	dir     string
	wall    time.Duration
	mu      sync.Mutex
	idle    []*c02Proc
	started int
	// confirmed counts confirmed worker deaths (crash, stack overflow, timeout, …)
	confirmed int
	// confirmedKnown counts the known runaway recursions of the fixed prelude (not part of the
	// "verdict is settled" budget)
	confirmedKnown int
	skipped        int
	bigStack  map[string]bool
}

func (pl *c02Pool) get() *c02Proc {
	pl.mu.Lock()
	if n := len(pl.idle); n > 0 {
		p := pl.idle[n-1]
		pl.idle = pl.idle[:n-1]
		pl.mu.Unlock()
		return p
	}
	pl.started++
	k := pl.started
	pl.mu.Unlock()
	p, err := c02Start(fmt.Sprintf("%s/w%d", pl.dir, k))
	if err != nil {
		fmt.Fprintln(os.Stderr, "C02: cannot start worker:", err)
		os.Exit(2)
	}
	return p
}

func (pl *c02Pool) put(p *c02Proc) {
	// recycle workers now and then so that leaked memory of one case does not hit another
	if p.served > 400 {
		p.kill()
		return
	}
	pl.mu.Lock()
	pl.idle = append(pl.idle, p)
	pl.mu.Unlock()
}

func (pl *c02Pool) closeAll() {
	pl.mu.Lock()
	defer pl.mu.Unlock()
	for _, p := range pl.idle {
		p.kill()
	}
	pl.idle = nil
}

// firstBigStack reports whether sig is a recursion cycle not seen before in this run (by the
// pool or by the CLI runs) and marks it as seen.
func (pl *c02Pool) firstBigStack(sig string) bool {
	pl.mu.Lock()
	defer pl.mu.Unlock()
	if pl.bigStack == nil {
		pl.bigStack = map[string]bool{}
	}
	first := !pl.bigStack[sig]
	pl.bigStack[sig] = true
	return first
}

// Ask runs rq on some worker. When the worker dies or hangs, the request is re-run alone in
// a fresh worker (with a doubled CPU budget, to be robust against a loaded machine); only a
// confirmed failure is returned as such, an unconfirmed one is returned with Kind
// "unconfirmed:<kind>".
func (pl *c02Pool) Ask(rq *c02Req) c02Outcome {
	p := pl.get()
	o := p.ask(rq, pl.wall)
	if o.Kind == "" {
		pl.put(p)
		return o
	}
	// Confirmation is expensive (tens of CPU seconds for a runaway recursion). Once a handful
	// of failures is confirmed the verdict of the run is settled: further dead workers are not
	// confirmed (and not reported), only counted.
	pl.mu.Lock()
	settled := pl.confirmed >= 8
	pl.mu.Unlock()
	if settled {
		o.Kind = "skipped:" + o.Kind
		return o
	}
	// p is dead: confirm alone, in a fresh process, with twice the CPU budget and (for a stack
	// overflow) Go's default 1 GB stack limit
	pl.mu.Lock()
	pl.started++
	k := pl.started
	pl.mu.Unlock()
	var env []string
	rq2 := *rq
	rq2.CPUms *= 2
	// the confirmation is ONE pipeline run with twice the budget of the whole request: what is
	// confirmed is "this input kills / hangs a worker", and a heavy but bounded input (seed 3 of
	// session 3: pkg/list/testdata/repeat.txtar, `len(list.Repeat([0], 1000000))` at the
	// documented limit, 10-20 CPU-seconds per run depending on machine load) must not be
	// reported as a hang because two or more runs of it do not fit the budget
	rq2.Runs = 1
	if o.Kind == "stack-overflow" {
		// the first overflow of every recursion cycle is confirmed with Go's default 1 GB
		// limit (thirty CPU seconds); later ones with the same cycle with the small limit
		first := pl.firstBigStack(o.Sig)
		if (first || o.Sig == "") && !rq.Known {
			env = append(env, "C02_MAXSTACK=1000000000")
			rq2.CPUms = max(rq2.CPUms, 120000)
		}
	}
	p2, err := c02Start(fmt.Sprintf("%s/w%d", pl.dir, k), env...)
	if err != nil {
		return o
	}
	o2 := p2.ask(&rq2, 2*pl.wall)
	if o2.Kind != "" {
		pl.mu.Lock()
		pl.confirmed++
		pl.mu.Unlock()
	}
	if o2.Kind == "" {
		p2.kill()
		o2.Kind = "unconfirmed:" + o.Kind
		o2.Detail = o.Detail
		return o2
	}
	return o2
}

// AskFresh runs rq in a brand-new process (the "another process" run).
func (pl *c02Pool) AskFresh(rq *c02Req, env ...string) c02Outcome {
	pl.mu.Lock()
	pl.started++
	k := pl.started
	pl.mu.Unlock()
	p, err := c02Start(fmt.Sprintf("%s/w%d", pl.dir, k), env...)
	if err != nil {
		return c02Outcome{Kind: "crash", Detail: err.Error()}
	}
	o := p.ask(rq, 2*pl.wall)
	if o.Kind == "" {
		p.kill()
	}
	return o
}
