package main

// C20 — loading, trimming and the canonical "fully evaluated, defaults resolved" dump.
//
// Packages are loaded the way cmd/cue/cmd/trim.go does it: cue/load.Instances over a
// directory (here a load.Config.Overlay on a virtual absolute directory, so that
// build.Instance.Dir and ast.File.Filename have the shape trim.Files relies on),
// cue.Context.BuildInstance, trim.Files(inst.Files, value, &trim.Config{}), format.Node.

import (
	"fmt"
	"path/filepath"
	"sort"
	"strings"
	"sync/atomic"

	"cuelang.org/go/cue"
	"cuelang.org/go/cue/ast"
	"cuelang.org/go/cue/build"
	"cuelang.org/go/cue/cuecontext"
	"cuelang.org/go/cue/format"
	"cuelang.org/go/cue/load"
	"cuelang.org/go/internal/core/adt"
	"cuelang.org/go/internal/core/dep"
	"cuelang.org/go/internal/core/runtime"
	"cuelang.org/go/internal/value"
	"cuelang.org/go/tools/trim"
)

// c20Pkg is one package: file names (relative, sorted) and their sources.
type c20Pkg struct {
	Names []string `json:"names"`
	Srcs  []string `json:"srcs"`
}

func (p c20Pkg) String() string {
	var sb strings.Builder
	for i, n := range p.Names {
		fmt.Fprintf(&sb, "-- %s --\n%s", n, p.Srcs[i])
		if !strings.HasSuffix(p.Srcs[i], "\n") {
			sb.WriteByte('\n')
		}
	}
	return sb.String()
}

func (p c20Pkg) clone() c20Pkg {
	return c20Pkg{Names: append([]string{}, p.Names...), Srcs: append([]string{}, p.Srcs...)}
}

func (p c20Pkg) equal(q c20Pkg) bool {
	if len(p.Names) != len(q.Names) {
		return false
	}
	for i := range p.Names {
		if p.Names[i] != q.Names[i] || p.Srcs[i] != q.Srcs[i] {
			return false
		}
	}
	return true
}

var c20DirCounter atomic.Int64

type c20Loaded struct {
	dir   string
	inst  *build.Instance
	files []*ast.File
	val   cue.Value
	ctx   *cue.Context
}

// c20Load parses and builds the package. A load/parse/build-structure error is returned
// as err; evaluation errors stay inside the value.
func c20Load(p c20Pkg) (l *c20Loaded, err error) {
	defer func() {
		if r := recover(); r != nil {
			err = fmt.Errorf("panic in load/build: %v", r)
		}
	}()
	dir := fmt.Sprintf("/c20virt/p%d", c20DirCounter.Add(1))
	ov := map[string]load.Source{
		filepath.Join(dir, "cue.mod", "module.cue"): load.FromString("module: \"verif.example/c20\"\nlanguage: version: \"v0.15.0\"\n"),
	}
	var args []string
	for i, n := range p.Names {
		ov[filepath.Join(dir, n)] = load.FromString(p.Srcs[i])
		args = append(args, "./"+n)
	}
	_ = args
	insts := load.Instances([]string{"."}, &load.Config{Dir: dir, Overlay: ov})
	if len(insts) != 1 {
		return nil, fmt.Errorf("load: %d instances", len(insts))
	}
	inst := insts[0]
	if inst.Err != nil {
		return nil, fmt.Errorf("load: %v", inst.Err)
	}
	ctx := cuecontext.New()
	val := ctx.BuildInstance(inst)
	return &c20Loaded{dir: dir, inst: inst, files: inst.Files, val: val, ctx: ctx}, nil
}

// c20Format renders the (possibly trimmed) files of a loaded package back to a c20Pkg
// exactly as cmd/cue/cmd/trim.go does (format.Node, no options unless --simplify).
func c20Format(l *c20Loaded) (p c20Pkg, err error) {
	defer func() {
		if r := recover(); r != nil {
			err = fmt.Errorf("panic in format.Node: %v", r)
		}
	}()
	type ent struct{ n, s string }
	var es []ent
	for _, f := range l.files {
		b, err := format.Node(f)
		if err != nil {
			return p, err
		}
		rel, _ := filepath.Rel(l.dir, f.Filename)
		es = append(es, ent{rel, string(b)})
	}
	sort.Slice(es, func(i, j int) bool { return es[i].n < es[j].n })
	for _, e := range es {
		p.Names = append(p.Names, e.n)
		p.Srcs = append(p.Srcs, e.s)
	}
	return p, nil
}

// c20TrimLoaded runs trim.Files on a loaded package (mutating its ASTs).
func c20TrimLoaded(l *c20Loaded) (err error) {
	defer func() {
		if r := recover(); r != nil {
			err = fmt.Errorf("panic: %v", r)
		}
	}()
	return trim.Files(l.files, l.val, &trim.Config{})
}

// ---- canonical dump ---------------------------------------------------------------

type c20dumper struct {
	r      *runtime.Runtime
	ctx    *adt.OpContext
	out    map[string]string
	budget int
	stack  map[*adt.Vertex]bool
	nErr   int
	nInc   int
	nLeaf  int
	schema bool // also walk optional arcs and pattern constraints
	// marks: per path, the rendered default branches of every MARKED disjunction among the
	// vertex's leaf conjuncts (one entry per such conjunct), wherever it comes from
	// (pattern, comprehension, definition, embedding). Only filled when non-nil.
	marks map[string][][]string
	// deps: per path, the paths of the vertices its conjuncts refer to (internal/core/dep)
	deps map[string][]string
}

func c20errClass(b *adt.Bottom) string {
	switch b.Code {
	case adt.IncompleteError, adt.CycleError:
		return "incomplete"
	case adt.StructuralCycleError:
		return "structural-cycle"
	default:
		return "eval"
	}
}

func (d *c20dumper) label(f adt.Feature) string {
	switch {
	case f.IsInt():
		return fmt.Sprintf("[%d]", f.Index())
	case f.IsString():
		return fmt.Sprintf("%q", f.StringValue(d.r))
	default:
		return f.IdentString(d.r)
	}
}

func c20num(x *adt.Num) string {
	dd := x.X
	r := dd
	r.Reduce(&dd)
	kind := "f"
	if x.K&adt.IntKind != 0 {
		kind = "i"
	}
	return kind + r.Text('G')
}

// value renders a non-struct adt.Value order-insensitively.
func (d *c20dumper) value(x adt.Value) string {
	switch x := x.(type) {
	case nil:
		return "<nil>"
	case *adt.Vertex:
		sub := &c20dumper{r: d.r, ctx: d.ctx, out: map[string]string{}, budget: d.budget, stack: d.stack, schema: d.schema}
		sub.vertex(x, "")
		d.budget = sub.budget
		if len(sub.out) == 1 {
			if only, ok := sub.out["."]; ok {
				return only
			}
		}
		return "{" + strings.ReplaceAll(strings.TrimSpace(c20join(sub.out)), "\n", "; ") + "}"
	case *adt.Num:
		return c20num(x)
	case *adt.String:
		return fmt.Sprintf("%q", x.Str)
	case *adt.Bytes:
		return fmt.Sprintf("'%x'", x.B)
	case *adt.Bool:
		return fmt.Sprint(x.B)
	case *adt.Null:
		return "null"
	case *adt.Top:
		return "_"
	case *adt.BasicType:
		return "T(" + x.K.String() + ")"
	case *adt.BoundValue:
		return x.Op.String() + d.value(x.Value)
	case *adt.BuiltinValidator:
		args := make([]string, len(x.Args))
		for i, a := range x.Args {
			args[i] = d.value(a)
		}
		name := ""
		if x.Builtin != nil {
			name = x.Builtin.Name
		}
		return "V:" + name + "(" + strings.Join(args, ",") + ")"
	case *adt.Builtin:
		return "B:" + x.Name
	case *adt.Conjunction:
		parts := make([]string, 0, len(x.Values))
		for _, v := range x.Values {
			parts = append(parts, d.value(v))
		}
		sort.Strings(parts)
		return "&(" + strings.Join(parts, ",") + ")"
	case *adt.Disjunction:
		parts := make([]string, 0, len(x.Values))
		for i, v := range x.Values {
			s := d.value(v)
			if i < x.NumDefaults {
				s = "*" + s
			}
			parts = append(parts, s)
		}
		sort.Strings(parts)
		parts = c20uniq(parts)
		return "|(" + strings.Join(parts, ",") + ")"
	case *adt.Bottom:
		return "err:" + c20errClass(x)
	}
	return fmt.Sprintf("<%T>", x)
}

func c20uniq(ss []string) []string {
	out := ss[:0]
	for i, s := range ss {
		if i == 0 || s != ss[i-1] {
			out = append(out, s)
		}
	}
	return out
}

func c20join(m map[string]string) string {
	keys := make([]string, 0, len(m))
	for k := range m {
		keys = append(keys, k)
	}
	sort.Strings(keys)
	var sb strings.Builder
	for _, k := range keys {
		sb.WriteString(k)
		sb.WriteString(" = ")
		sb.WriteString(m[k])
		sb.WriteString("\n")
	}
	return sb.String()
}

func (d *c20dumper) vertex(v *adt.Vertex, path string) {
	if d.budget <= 0 {
		d.out[path+" <cut>"] = ""
		return
	}
	d.budget--
	v = v.DerefValue()
	if d.stack[v] {
		d.out[path] = "<cycle>"
		return
	}
	d.stack[v] = true
	defer delete(d.stack, v)
	v.Finalize(d.ctx)
	dv := v.Default()
	if dv != v {
		dv = dv.DerefValue()
		dv.Finalize(d.ctx)
	}
	key := path
	if key == "" {
		key = "."
	}
	if d.marks != nil {
		if ms := d.markedDisjunctions(v); len(ms) > 0 {
			d.marks[key] = ms
		}
		if ds := d.dependencies(v); len(ds) > 0 {
			d.deps[key] = ds
		}
	}
	descend := false
	switch b := dv.BaseValue.(type) {
	case *adt.Bottom:
		if b.ChildError {
			d.out[key] = "struct"
			descend = true
		} else {
			cls := c20errClass(b)
			if cls == "incomplete" {
				d.nInc++
			} else {
				d.nErr++
			}
			d.out[key] = "err:" + cls
		}
	case *adt.StructMarker:
		d.out[key] = "struct"
		descend = true
	case *adt.ListMarker:
		n := 0
		for _, a := range dv.Arcs {
			if a.Label.IsInt() {
				n++
			}
		}
		open := ""
		if !dv.IsClosedList() {
			open = ",open"
		}
		d.out[key] = fmt.Sprintf("list(%d%s)", n, open)
		descend = true
	case *adt.Vertex:
		d.vertex(b, path)
		return
	case nil:
		d.out[key] = "<nil>"
	default:
		d.nLeaf++
		if val, ok := b.(adt.Value); ok {
			d.out[key] = d.value(val)
		} else {
			d.out[key] = fmt.Sprintf("<%T>", b)
		}
	}
	if !descend {
		return
	}
	for _, a := range dv.Arcs {
		if a.Label.IsLet() {
			continue
		}
		mark := ""
		switch a.ArcType {
		case adt.ArcMember:
		case adt.ArcRequired:
			mark = "!"
		case adt.ArcOptional:
			if !d.schema {
				continue
			}
			mark = "?"
		default:
			continue
		}
		d.vertex(a, path+"."+d.label(a.Label)+mark)
	}
	if d.schema {
		if pc := dv.PatternConstraints; pc != nil {
			var ps []string
			for _, pair := range pc.Pairs {
				pair.Constraint.Finalize(d.ctx)
				ps = append(ps, d.value(pair.Pattern)+"=>"+d.value(pair.Constraint))
			}
			sort.Strings(ps)
			d.out[key+" <patterns>"] = strings.Join(ps, ";")
		}
	}
}

// markedDisjunctions lists, for every leaf conjunct of v that is a disjunction with default
// marks, the canonical rendering of its marked branches ("?" for a branch that is not a
// plain value).
func (d *c20dumper) markedDisjunctions(v *adt.Vertex) (out [][]string) {
	defer func() {
		if r := recover(); r != nil {
			out = nil
		}
	}()
	for c := range v.LeafConjuncts() {
		switch x := c.Elem().(type) {
		case *adt.DisjunctionExpr:
			if !x.HasDefaults {
				continue
			}
			var defs []string
			for _, b := range x.Values {
				if !b.Default {
					continue
				}
				if val, ok := b.Val.(adt.Value); ok {
					defs = append(defs, d.value(val))
				} else {
					defs = append(defs, "?")
				}
			}
			if len(defs) > 0 {
				out = append(out, defs)
			}
		case *adt.Disjunction:
			if !x.HasDefaults || x.NumDefaults == 0 {
				continue
			}
			var defs []string
			for i, b := range x.Values {
				if i < x.NumDefaults {
					defs = append(defs, d.value(b))
				}
			}
			out = append(out, defs)
		}
	}
	return out
}

// dependencies lists the dump keys of the vertices that the conjuncts of v refer to.
func (d *c20dumper) dependencies(v *adt.Vertex) (out []string) {
	defer func() {
		if r := recover(); r != nil {
			out = nil
		}
	}()
	seen := map[string]bool{}
	dep.Visit(&dep.Config{}, d.ctx, v, func(dp dep.Dependency) error {
		if dp.Node == nil {
			return nil
		}
		k := ""
		for _, f := range dp.Node.Path() {
			k += "." + d.label(f)
		}
		if k != "" && !seen[k] {
			seen[k] = true
			out = append(out, k)
		}
		return nil
	})
	sort.Strings(out)
	return out
}

type c20Eval struct {
	marks  map[string][][]string // marked-disjunction conjuncts per path (original value)
	deps   map[string][]string   // referenced paths per path (original value)
	dump   string                // property-level canonical form
	schema string                // + optional fields and pattern constraints (statistics only)
	nErr   int
	nInc   int
	nPaths int
	topErr bool // val.Err() != nil (trim.Files refuses such packages)
	valid  bool // val.Validate() == nil (cmd/cue refuses packages failing this)
}

func c20Evaluate(l *c20Loaded) (e c20Eval, err error) {
	defer func() {
		if r := recover(); r != nil {
			err = fmt.Errorf("panic in evaluation: %v", r)
		}
	}()
	r, v := value.ToInternal(l.val)
	ctx := adt.NewContext(r, v)
	d := &c20dumper{r: r, ctx: ctx, out: map[string]string{}, budget: 20000, stack: map[*adt.Vertex]bool{}, marks: map[string][][]string{}, deps: map[string][]string{}}
	d.vertex(v, "")
	e.dump = c20join(d.out)
	e.marks = d.marks
	e.deps = d.deps
	e.nErr, e.nInc, e.nPaths = d.nErr, d.nInc, len(d.out)
	s := &c20dumper{r: r, ctx: ctx, out: map[string]string{}, budget: 20000, stack: map[*adt.Vertex]bool{}, schema: true}
	s.vertex(v, "")
	e.schema = c20join(s.out)
	e.topErr = l.val.Err() != nil
	e.valid = l.val.Validate() == nil
	return e, nil
}

// c20EvalPkg = load + evaluate; err covers parse/load failures and panics.
func c20EvalPkg(p c20Pkg) (c20Eval, error) {
	l, err := c20Load(p)
	if err != nil {
		return c20Eval{}, err
	}
	return c20Evaluate(l)
}

// c20TrimPkg loads p, trims it and returns the formatted result.
// loadErr: the package does not load; trimErr: trim.Files returned an error (or panicked).
func c20TrimPkg(p c20Pkg) (out c20Pkg, before c20Eval, loadErr, trimErr error) {
	l, err := c20Load(p)
	if err != nil {
		return out, before, err, nil
	}
	before, err = c20Evaluate(l)
	if err != nil {
		return out, before, err, nil
	}
	if err := c20TrimLoaded(l); err != nil {
		return out, before, nil, err
	}
	out, err = c20Format(l)
	if err != nil {
		return out, before, nil, fmt.Errorf("format after trim: %v", err)
	}
	return out, before, nil, nil
}

type c20PathDiff struct{ path, before, after string } // "" = absent

// c20DiffPaths lists the paths at which two canonical dumps differ.
func c20DiffPaths(a, b string) []c20PathDiff {
	am, bm := map[string]string{}, map[string]string{}
	for _, l := range strings.Split(a, "\n") {
		if k, v, ok := strings.Cut(l, " = "); ok {
			am[k] = v
		}
	}
	for _, l := range strings.Split(b, "\n") {
		if k, v, ok := strings.Cut(l, " = "); ok {
			bm[k] = v
		}
	}
	var out []c20PathDiff
	for k, v := range am {
		if w, ok := bm[k]; !ok || w != v {
			out = append(out, c20PathDiff{k, v, w})
		}
	}
	for k, w := range bm {
		if _, ok := am[k]; !ok {
			out = append(out, c20PathDiff{k, "", w})
		}
	}
	sort.Slice(out, func(i, j int) bool { return out[i].path < out[j].path })
	return out
}

// c20SemanticClass attributes an evaluation change to a root cause by looking at the
// ORIGINAL evaluated vertices. "multi-default-vertex": at every differing path the original
// vertex unifies two or more MARKED disjunctions (whatever brought them there) and the
// trimmed value is an unresolved disjunction that still offers defaults of at least two of
// them (the ambiguous combination of their defaults). "" = no attribution.
func c20SemanticClass(before c20Eval, afterDump string) string {
	diffs := c20DiffPaths(before.dump, afterDump)
	if len(diffs) == 0 {
		return ""
	}
	// (1) paths that qualify on their own
	ok := map[string]bool{}
	var rest []c20PathDiff
	for _, df := range diffs {
		if c20multiDefaultAt(before, df) {
			ok[df.path] = true
		} else {
			rest = append(rest, df)
		}
	}
	if len(ok) == 0 {
		return ""
	}
	// (2) paths whose conjuncts REFER to a qualifying path (or into / above it) and that
	// became unresolved in the same way (ambiguous disjunction or incomplete): the change
	// propagated through a reference; to a fixpoint
	related := func(a, b string) bool {
		return a == b || strings.HasPrefix(a, b+".") || strings.HasPrefix(b, a+".")
	}
	for changed := true; changed && len(rest) > 0; {
		changed = false
		var next []c20PathDiff
		for _, df := range rest {
			hit := false
			if df.before != "" && df.after != df.before && (strings.HasPrefix(df.after, "|(") || df.after == "err:incomplete") {
				for _, dp := range before.deps[df.path] {
					for q := range ok {
						if related(dp, q) {
							hit = true
						}
					}
				}
			}
			if hit {
				ok[df.path] = true
				changed = true
			} else {
				next = append(next, df)
			}
		}
		rest = next
	}
	if len(rest) > 0 {
		return ""
	}
	return "multi-default-vertex"
}

func c20multiDefaultAt(before c20Eval, df c20PathDiff) bool {
	ms := before.marks[df.path]
	if len(ms) < 2 || df.before == "" || !strings.HasPrefix(df.after, "|(") || df.after == df.before {
		return false
	}
	// defaults of how many different marked conjuncts are among the disjuncts left?
	inner := strings.TrimSuffix(strings.TrimPrefix(df.after, "|("), ")")
	have := map[string]bool{}
	for _, x := range strings.Split(inner, ",") {
		have[strings.TrimPrefix(x, "*")] = true
	}
	contributors := 0
	for _, defs := range ms {
		for _, dv := range defs {
			if dv == "?" || have[dv] {
				contributors++
				break
			}
		}
	}
	return contributors >= 2
}

// c20DiffDumps returns the first few differing lines of two canonical dumps.
func c20DiffDumps(a, b string) string {
	am, bm := map[string]string{}, map[string]string{}
	for _, l := range strings.Split(a, "\n") {
		if k, v, ok := strings.Cut(l, " = "); ok {
			am[k] = v
		}
	}
	for _, l := range strings.Split(b, "\n") {
		if k, v, ok := strings.Cut(l, " = "); ok {
			bm[k] = v
		}
	}
	var ds []string
	for k, v := range am {
		if w, ok := bm[k]; !ok {
			ds = append(ds, fmt.Sprintf("%s: %s -> <absent>", k, v))
		} else if w != v {
			ds = append(ds, fmt.Sprintf("%s: %s -> %s", k, v, w))
		}
	}
	for k, w := range bm {
		if _, ok := am[k]; !ok {
			ds = append(ds, fmt.Sprintf("%s: <absent> -> %s", k, w))
		}
	}
	sort.Strings(ds)
	if len(ds) > 6 {
		ds = append(ds[:6], fmt.Sprintf("… %d more", len(ds)-6))
	}
	return strings.Join(ds, "; ")
}
