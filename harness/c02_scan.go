package main

// C02: the scanner's loop/progress structure against Model/ScanLoops.lean.
//
// For every input the REAL scanner is driven through its public API only
// (Init / Scan / ResumeInterpolation / Offset) by the same client loop as the model's
// `scanAll` (the parser's interpolation bookkeeping: one parenthesis counter per open
// interpolation, ResumeInterpolation after the closing RPAREN).  The recorded trace
// (token start, s.offset after the call, coarse class — all in RUNE positions) must be
// the model's trace for the same runes, the same letter/digit classes and the same
// number-extent oracle.  A hang, an overrun of the 4*len+16 call cap or a panic is a
// direct failure and stops the stream.

import (
	"fmt"
	"os"
	"strings"
	"time"
	"unicode"
	"unicode/utf8"

	cueerrors "cuelang.org/go/cue/errors"
	"cuelang.org/go/cue/parser"
	"cuelang.org/go/cue/scanner"
	"cuelang.org/go/cue/token"
)

var c02ScanSuffixes = []string{"", "\n", ")", "\""}

type c02ScanEntry struct {
	start, end int
	cls        string
	resume     bool
}

type c02ScanResult struct {
	trace   []c02ScanEntry
	outcome string // "ok", "cap", "resume-panic", "panic: …"
	errs    int
}

// c02ScanDecode: the runes exactly as Scanner.next delivers them, and the byte offset → rune
// index map (idx[len(src)] = number of runes).
func c02ScanDecode(src []byte) (runes []rune, idx []int) {
	idx = make([]int, len(src)+1)
	for i := 0; i < len(src); {
		r, w := rune(src[i]), 1
		if r >= utf8.RuneSelf {
			r, w = utf8.DecodeRune(src[i:])
		}
		for k := 0; k < w; k++ {
			idx[i+k] = len(runes)
		}
		runes = append(runes, r)
		i += w
	}
	idx[len(src)] = len(runes)
	return
}

func c02ScanClass(tok token.Token, lit string) string {
	switch {
	case tok == token.COMMA && lit == "\n":
		return "COMMA_ELIDED"
	case tok.IsKeyword():
		return "IDENT"
	}
	switch tok {
	case token.ILLEGAL:
		return "ILLEGAL"
	case token.EOF:
		return "EOF"
	case token.COMMENT:
		return "COMMENT"
	case token.ATTRIBUTE:
		return "ATTR"
	case token.IDENT:
		return "IDENT"
	case token.INT, token.FLOAT:
		return "NUM"
	case token.STRING:
		return "STRING"
	case token.INTERPOLATION:
		return "INTERP"
	case token.BOTTOM:
		return "BOTTOM"
	case token.ADD:
		return "ADD"
	case token.SUB:
		return "SUB"
	case token.MUL:
		return "MUL"
	case token.QUO:
		return "QUO"
	case token.AND:
		return "AND"
	case token.OR:
		return "OR"
	case token.LAND:
		return "LAND"
	case token.LOR:
		return "LOR"
	case token.BIND:
		return "BIND"
	case token.EQL:
		return "EQL"
	case token.LSS:
		return "LSS"
	case token.GTR:
		return "GTR"
	case token.NOT:
		return "NOT"
	case token.ARROW:
		return "ARROW"
	case token.NEQ:
		return "NEQ"
	case token.LEQ:
		return "LEQ"
	case token.GEQ:
		return "GEQ"
	case token.MAT:
		return "MAT"
	case token.NMAT:
		return "NMAT"
	case token.LPAREN:
		return "LPAREN"
	case token.LBRACK:
		return "LBRACK"
	case token.LBRACE:
		return "LBRACE"
	case token.COMMA:
		return "COMMA"
	case token.PERIOD:
		return "PERIOD"
	case token.ELLIPSIS:
		return "ELLIPSIS"
	case token.RPAREN:
		return "RPAREN"
	case token.RBRACK:
		return "RBRACK"
	case token.RBRACE:
		return "RBRACE"
	case token.SEMICOLON:
		return "SEMI"
	case token.COLON:
		return "COLON"
	case token.OPTION:
		return "OPTION"
	case token.TILDE:
		return "TILDE"
	}
	return fmt.Sprintf("TOK%d", int(tok))
}

// c02ScanClient: the client loop on the real scanner (positions still in BYTES).
func c02ScanClient(src []byte, maxCalls int) (res c02ScanResult) {
	res.outcome = "ok"
	inResume := false
	defer func() {
		if r := recover(); r != nil {
			res.outcome = "panic: " + oneLine(fmt.Sprint(r))
			// popInterpolation on an empty quote stack: the parser (and this client) takes a
			// literal returned by ResumeInterpolation that ends in "(" for an open interpolation
			// even when it is an unterminated STRING.  parser.ParseFile masks this panic (its
			// deferred closeList re-panics with "unmatched close list", which is recovered), so
			// it is not a crash of parsing; the model must predict it exactly (answer "panic").
			if inResume && strings.Contains(res.outcome, "index out of range [-1]") {
				res.outcome = "resume-panic"
			}
		}
	}()
	var s scanner.Scanner
	f := token.NewFile("c02scan.cue", -1, len(src))
	s.Init(f, src, func(token.Pos, string, []interface{}) { res.errs++ }, scanner.ScanComments)
	var depth []int
	calls := 0
	for {
		if calls++; calls > maxCalls {
			res.outcome = "cap"
			return
		}
		pos, tok, lit := s.Scan()
		res.trace = append(res.trace, c02ScanEntry{start: pos.Offset(), end: s.Offset(), cls: c02ScanClass(tok, lit)})
		if tok == token.EOF {
			return
		}
		if tok == token.INTERPOLATION {
			depth = append(depth, 0)
			continue
		}
		if len(depth) == 0 {
			continue
		}
		top := len(depth) - 1
		switch tok {
		case token.LPAREN:
			depth[top]++
		case token.RPAREN:
			if depth[top] > 1 {
				depth[top]--
				break
			}
			depth = depth[:top]
			if calls++; calls > maxCalls {
				res.outcome = "cap"
				return
			}
			before := s.Offset()
			inResume = true
			str := s.ResumeInterpolation()
			inResume = false
			cls := "RESUME"
			// parser.parseInterpolation: the interpolation goes on iff the literal ends in "("
			if strings.HasSuffix(str, "(") {
				cls = "RESUME_OPEN"
				depth = append(depth, 0)
			}
			res.trace = append(res.trace, c02ScanEntry{start: before, end: s.Offset(), cls: cls, resume: true})
		}
	}
}

// c02ScanTimed runs the client in a goroutine with a 5 s timeout.
func c02ScanTimed(src []byte) (c02ScanResult, bool) {
	ch := make(chan c02ScanResult, 1)
	go func() { ch <- c02ScanClient(src, 4*len(src)+16) }()
	t := time.NewTimer(5 * time.Second)
	defer t.Stop()
	select {
	case r := <-ch:
		return r, true
	case <-t.C:
		return c02ScanResult{outcome: "timeout"}, false
	}
}

// c02ScanNumEnd: the number-extent oracle, by a fresh real Scanner on the suffix.
func c02ScanNumEnd(src []byte, runes []rune, idx []int) string {
	var sb strings.Builder
	ri := 0
	for bi := 0; bi < len(src); ri++ {
		r := runes[ri]
		w := 1
		if src[bi] >= utf8.RuneSelf {
			_, w = utf8.DecodeRune(src[bi:]) // the width next() uses
		}
		isNum := '0' <= r && r <= '9'
		if r == '.' && ri+1 < len(runes) && '0' <= runes[ri+1] && runes[ri+1] <= '9' {
			isNum = true
		}
		if isNum {
			suf := src[bi:]
			var s scanner.Scanner
			s.Init(token.NewFile("c02scan-num.cue", -1, len(suf)), suf, nil, scanner.ScanComments)
			s.Scan()
			if sb.Len() > 0 {
				sb.WriteByte(',')
			}
			fmt.Fprintf(&sb, "%d>%d", ri, idx[bi+s.Offset()])
		}
		bi += w
	}
	if sb.Len() == 0 {
		return "-"
	}
	return sb.String()
}

func c02ScanRunes(runes []rune) string {
	if len(runes) == 0 {
		return "-"
	}
	var sb strings.Builder
	for i, r := range runes {
		if i > 0 {
			sb.WriteByte(',')
		}
		fmt.Fprintf(&sb, "%d", r)
		if r >= utf8.RuneSelf {
			if unicode.IsLetter(r) {
				sb.WriteString(":L")
			} else if unicode.IsDigit(r) {
				sb.WriteString(":D")
			}
		}
	}
	return sb.String()
}

// c02ScanProgress: P2's predicate on the observable trace.  Offsets never go back; a Scan call
// that is not EOF ends strictly further than the previous call, except for an elided comma
// (insertEOL cleared), which cannot happen twice at the same offset.
func c02ScanProgress(tr []c02ScanEntry, n int) (bool, string) {
	prev, elidedHere := 0, false
	for i, e := range tr {
		if e.end > n || e.start > e.end {
			return false, fmt.Sprintf("call %d: start %d end %d length %d", i, e.start, e.end, n)
		}
		if i > 0 && e.end < prev {
			return false, fmt.Sprintf("call %d goes back from %d to %d", i, prev, e.end)
		}
		if !e.resume && e.cls != "EOF" && i > 0 && e.end == prev {
			if e.cls != "COMMA_ELIDED" || elidedHere {
				return false, fmt.Sprintf("call %d (%s) makes no progress at %d", i, e.cls, prev)
			}
		}
		if e.cls == "COMMA_ELIDED" && (i == 0 || e.end == prev) {
			elidedHere = true
		} else if i == 0 || e.end > prev {
			elidedHere = false
		}
		if e.cls == "EOF" && (e.end != n || i != len(tr)-1) {
			return false, fmt.Sprintf("EOF at %d, length %d", e.end, n)
		}
		prev = e.end
	}
	return true, ""
}

var c02ScanPieces = []string{
	"\"", "\"", "'", "\\", "\\(", "(", ")", ")", "#", "#", "@", "@x(", "@a.b(", "/", "//", "\n", "\n", "\r", "\r\n", " ", "\t",
	"a", "b", "x", "_", "_|_", "__", "$", "0", "1", "9", "1.5", ".5", "0x", "1e", ".", "..", "...", "|", ",", ":", ";",
	"{", "}", "[", "]", "+", "-", "*", "<", ">", "=", "!", "&", "~", "?", "<-", "==", "=~", "!~", "&&", "||", "%", "^", "`",
	"é", "世", "\u0660", "\ufeff", "\xff", "\x00", "\"\"\"", "\"\"\"\n", "'''\n", "#\"", "\"#", "##\"", "\"##", "\\#(", "\\##(",
	"\"\\(", "\"\\(a)", "@x(\"\\(", "\\n", "\\u12", "\\x", "\\7", "if", "let", "true",
}

func c02ScanRandom(r *Rng) []byte {
	n := r.Intn(41)
	var b []byte
	// bias: open with an attribute or an interpolation in a third of the cases
	switch r.Intn(6) {
	case 0:
		b = append(b, Pick(r, []string{"@x(", "a @x(", "@x(\"\\(", "@(", "@x((", "@x({", "@x(["})...)
	case 1:
		b = append(b, Pick(r, []string{"\"\\(", "\"a\\(b", "#\"\\#(", "'\\(", "\"\"\"\n\\(", "\"\\(\"\\("})...)
	}
	for len(b) < n {
		b = append(b, Pick(r, c02ScanPieces)...)
	}
	if len(b) > n && !r.Chance(1, 4) {
		b = b[:n]
	}
	if len(b) > 40 {
		b = b[:40]
	}
	return b
}

func c02ScanTraceString(tr []c02ScanEntry, idx []int) string {
	var sb strings.Builder
	for i, e := range tr {
		if i > 0 {
			sb.WriteByte(';')
		}
		st, en := -1, -1
		if e.start >= 0 && e.start < len(idx) {
			st = idx[e.start]
		}
		if e.end >= 0 && e.end < len(idx) {
			en = idx[e.end]
		}
		fmt.Fprintf(&sb, "%d:%d:%s", st, en, e.cls)
	}
	if sb.Len() == 0 {
		return "-"
	}
	return sb.String()
}

// c02ScanOne: false = stop the stream (hang / cap overrun / panic).
func c02ScanOne(c *Cfg, src []byte, kind string) bool {
	replay := map[string]any{"input": string(src), "input_hex": H(string(src))}
	res, done := c02ScanTimed(src)
	switch {
	case !done:
		c.Direct(false, "scanner-no-progress", "the scanner client loop did not finish within 5 s", replay)
		return false
	case res.outcome == "cap":
		c.Direct(false, "scanner-no-progress", fmt.Sprintf("more than %d Scan/ResumeInterpolation calls without reaching EOF", 4*len(src)+16), replay)
		return false
	case res.outcome != "ok" && res.outcome != "resume-panic":
		c.Direct(false, "scanner-panic", res.outcome, replay)
		return false
	}
	runes, idx := c02ScanDecode(src)
	if res.outcome == "resume-panic" {
		c.Op("I", "scan "+c02ScanRunes(runes)+" "+c02ScanNumEnd(src, runes, idx), "panic")
		c.Count("scan.resume-panic(masked by the parser)")
		return true
	}
	// rune-level trace
	tr := make([]c02ScanEntry, len(res.trace))
	for i, e := range res.trace {
		tr[i] = e
		if e.start >= 0 && e.start <= len(src) {
			tr[i].start = idx[e.start]
		}
		if e.end >= 0 && e.end <= len(src) {
			tr[i].end = idx[e.end]
		}
	}
	okp, why := c02ScanProgress(tr, len(runes))
	c.Direct(okp, "scanner-no-progress", "progress predicate on the recorded trace: "+why, replay)

	line := "scan " + c02ScanRunes(runes) + " " + c02ScanNumEnd(src, runes, idx)
	c.Op("I", line, c02ScanTraceString(res.trace, idx))
	c.Trace()
	c.Case(line, len(res.trace) > 2)

	s := string(src)
	lb := "scan.len.0-8"
	switch {
	case len(src) > 24:
		lb = "scan.len.25+"
	case len(src) > 8:
		lb = "scan.len.9-24"
	}
	c.Count(lb)
	c.Count("scan.kind." + kind)
	if strings.Contains(s, "@") {
		c.Count("scan.has-attr")
	}
	hasInterp := false
	for _, e := range res.trace {
		if e.cls == "INTERP" {
			hasInterp = true
		}
	}
	if hasInterp {
		c.Count("scan.has-interp")
	}
	if res.errs > 0 {
		c.Count("scan.error")
	} else {
		c.Count("scan.no-error")
	}
	return true
}

func c02RunScan(c *Cfg, root *Rng) {
	if one := os.Getenv("C02_SCAN_INPUT"); one != "" {
		// development aid: one input, given as hex
		var b []byte
		fmt.Sscanf(one, "%x", &b)
		c02ScanOne(c, b, "env")
		func() {
			defer func() {
				if r := recover(); r != nil {
					fmt.Fprintf(os.Stderr, "c02scan: parser.ParseFile PANIC: %v\n", r)
				}
			}()
			var opts []parser.Option
			if os.Getenv("C02_SCAN_PTRACE") != "" {
				opts = append(opts, parser.Trace)
			}
			_, err := parser.ParseFile("c02scan.cue", b, opts...)
			fmt.Fprintf(os.Stderr, "c02scan: parser.ParseFile err=%v\n", err)
			for _, e := range cueerrors.Errors(err) {
				fmt.Fprintf(os.Stderr, "c02scan:   %v\n", e)
			}
		}()
		return
	}
	seen := map[string]bool{}
	for _, l := range c02SyntaxIdioms {
		for i := 1; i <= len(l); i++ {
			for _, suf := range c02ScanSuffixes {
				src := l[:i] + suf
				if seen[src] {
					continue
				}
				seen[src] = true
				if !c02ScanOne(c, []byte(src), "prefix") {
					return
				}
			}
		}
	}
	n := c.Pick(3000, 30000)
	for i := 0; i < n; i++ {
		if !c02ScanOne(c, c02ScanRandom(root.Sub()), "random") {
			return
		}
	}
}
