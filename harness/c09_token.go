package main

// C09 extension (session 3) — token.File's position table.
//
// Streams:
//   pos      random line tables built through AddLine (valid, out of order, duplicate, negative,
//            beyond the size) on files of size 0..400, queried at line boundaries, EOF, -1,
//            size+1 …: Lines(), Offset(Pos(o)), Position(Pos(o)) (line, column), RelPos/HasComma/
//            Scanned of the packed position and Add(n).Offset() compared with the model (O: the
//            model's answer is proved to be a GoodPosition), and the property's own predicate
//            evaluated on the implementation (Direct).
//   setlines SetLines acceptance and table (I; no caller in the tree).
//   content  generated texts (LF, CRLF, no trailing newline, only newlines, empty) and corpus
//            files: the table built by SetLinesForContent and the table the real scanner
//            builds through AddLine compared with the model (I); every probed offset's
//            Position compared with the definition from the CONTENT (1 + number of line
//            feeds before it) (Direct).

import (
	"fmt"
	"strconv"
	"strings"

	"cuelang.org/go/cue/scanner"
	"cuelang.org/go/cue/token"
)

func c09Ints(xs []int) string {
	if len(xs) == 0 {
		return "-"
	}
	var sb strings.Builder
	for i, x := range xs {
		if i > 0 {
			sb.WriteByte(',')
		}
		sb.WriteString(strconv.Itoa(x))
	}
	return sb.String()
}

func c09Clamp(o, size int) int {
	if o < 0 {
		return 0
	}
	if o > size {
		return size
	}
	return o
}

// c09GoodPosition is the property's predicate on the implementation alone.
func c09GoodPosition(f *token.File, o int, pos token.Position) string {
	size := f.Size()
	lines := f.Lines()
	co := c09Clamp(o, size)
	switch {
	case pos.Offset != co:
		return fmt.Sprintf("offset %d reported for clamped offset %d", pos.Offset, co)
	case pos.Offset < 0 || pos.Offset > size:
		return fmt.Sprintf("offset %d outside [0,%d]", pos.Offset, size)
	case pos.Line < 1 || pos.Line > len(lines):
		return fmt.Sprintf("line %d outside [1,%d]", pos.Line, len(lines))
	case pos.Column < 1:
		return fmt.Sprintf("column %d < 1", pos.Column)
	case lines[pos.Line-1] != co-(pos.Column-1):
		return fmt.Sprintf("line %d starts at %d, offset %d column %d", pos.Line, lines[pos.Line-1], co, pos.Column)
	case pos.Line < len(lines) && co >= lines[pos.Line]:
		return fmt.Sprintf("offset %d is not before the start %d of line %d", co, lines[pos.Line], pos.Line+1)
	}
	return ""
}

func c09PosCase(c *Cfg, size int, adds []int, queries [][3]int) {
	f := token.NewFile("c09.cue", -1, size)
	for _, a := range adds {
		f.AddLine(a)
	}
	var qs, ans []string
	ans = append(ans, c09Ints(f.Lines()))
	for _, q := range queries {
		o, rel, n := q[0], q[1], q[2]
		var a string
		func() {
			defer func() {
				if e := recover(); e != nil {
					a = "panic"
					c.Direct(false, "position-panic", fmt.Sprintf("token.File.Position panics: %v", e), map[string]any{"size": size, "addline": adds, "offset": o})
				}
			}()
			p := f.Pos(o, token.RelPos(rel&15)).WithComma(rel&16 != 0).WithScanned(rel&32 != 0)
			pos := f.Position(p)
			b2i := func(b bool) int {
				if b {
					return 1
				}
				return 0
			}
			a = fmt.Sprintf("%d:%d:%d:%d:%d:%d:%d", f.Offset(p), pos.Line, pos.Column, p.Add(n).Offset(), int(p.RelPos()), b2i(p.HasComma()), b2i(p.Scanned()))
			why := c09GoodPosition(f, o, pos)
			c.Direct(why == "", "position-not-within-line-table", "token.File.Position: "+why, map[string]any{"size": size, "addline": adds, "offset": o})
			c.Direct(p.Offset() == c09Clamp(o, size) && p.Position() == pos && f.Pos(f.Offset(p), token.RelPos(rel&15)).WithComma(rel&16 != 0).WithScanned(rel&32 != 0) == p,
				"pos-offset-roundtrip", fmt.Sprintf("Offset(Pos(%d)) = %d on a file of size %d, or Pos(Offset(p)) != p", o, p.Offset(), size), map[string]any{"size": size, "offset": o, "rel": rel})
		}()
		qs = append(qs, fmt.Sprintf("%d:%d:%d", o, rel, n))
		ans = append(ans, a)
		switch {
		case o < 0:
			c.Count("pos/query-negative")
		case o > size:
			c.Count("pos/query-past-eof")
		case o == size:
			c.Count("pos/query-at-eof")
		default:
			c.Count("pos/query-inside")
		}
	}
	line := fmt.Sprintf("pos %d %s %s", size, c09Ints(adds), strings.Join(qs, ";"))
	c.Op("O", line, strings.Join(ans, " "))
	c.Case(line, len(f.Lines()) > 1)
	c.Count("pos/lines-" + strconv.Itoa(min(len(f.Lines())/4*4, 16)) + "+")
}

func c09TokenStream(c *Cfg, r *Rng) {
	n := c.Pick(2500, 60000)
	if c.Focus {
		n *= 3
	}
	for i := 0; i < n; i++ {
		rr := r.Sub()
		size := 0
		switch rr.Intn(6) {
		case 0:
			size = rr.Intn(4)
		case 1:
			size = rr.Intn(400)
		default:
			size = rr.Intn(60)
		}
		var adds []int
		cur := 0
		k := rr.Intn(12)
		if rr.Chance(1, 10) {
			k = rr.Intn(70)
		}
		for j := 0; j < k; j++ {
			switch {
			case rr.Chance(1, 8): // out of order / duplicate / negative / beyond the size
				adds = append(adds, Pick(rr, []int{cur, cur - 1, 0, -1, -5, size, size + 1, size - 1, rr.Intn(size + 2)}))
			default:
				cur += 1 + rr.Intn(1+size/(k+1)*2)
				adds = append(adds, cur)
			}
		}
		var queries [][3]int
		addQ := func(o int) {
			queries = append(queries, [3]int{o, rr.Intn(64), Pick(rr, []int{0, 0, 1, -1, 2, -size, size, -3, 7, -(1 << 40)})})
		}
		for _, o := range []int{0, size, size - 1, size + 1, -1, rr.Intn(size + 1), rr.Intn(size + 1)} {
			addQ(o)
		}
		for _, a := range adds {
			if rr.Chance(1, 2) {
				addQ(a + Pick(rr, []int{-1, 0, 1}))
			}
		}
		c09PosCase(c, size, adds, queries)
	}
	// SetLines
	for i := 0; i < c.Pick(1500, 20000); i++ {
		rr := r.Sub()
		size := rr.Intn(40)
		var ls []int
		cur := 0
		if rr.Chance(1, 5) {
			cur = rr.Intn(4)
		}
		for j, k := 0, rr.Intn(8); j < k; j++ {
			ls = append(ls, cur)
			if rr.Chance(1, 10) {
				cur -= rr.Intn(3)
			} else {
				cur += 1 + rr.Intn(6)
			}
		}
		f := token.NewFile("c09.cue", -1, size)
		ok := f.SetLines(ls)
		c.Op("I", fmt.Sprintf("setlines %d %s", size, c09Ints(ls)), fmt.Sprintf("%v %s", ok, c09Ints(f.Lines())))
		c.Count("setlines/" + fmt.Sprint(ok))
	}
	// contents
	pieces := []string{"a", "bc", " ", "\t", "\n", "\n", "\r\n", "\r", "\n\n", "x: 1", "\"s\"", "// c", "é", "\x00", "{", "}", "\"\"\"\n  a\n  \"\"\"", "'''\r\n\t'''"}
	var contents []string
	contents = append(contents, "", "\n", "\n\n", "a", "a\n", "a\nb", "a\r\nb\r\n", "\r\n", "\n\r", "a\n\n\nb\n", "\ufeffa\nb")
	for i := 0; i < c.Pick(1200, 30000); i++ {
		rr := r.Sub()
		var sb strings.Builder
		for j, k := 0, rr.Intn(14); j < k; j++ {
			sb.WriteString(Pick(rr, pieces))
		}
		contents = append(contents, sb.String())
	}
	corpus := c09Corpus(c)
	idx := make([]int, len(corpus))
	for i := range idx {
		idx[i] = i
	}
	Shuffle(r, idx)
	nc := 0
	for _, i := range idx {
		if nc >= c.Pick(150, 1500) {
			break
		}
		if len(corpus[i]) <= 20000 {
			contents = append(contents, string(corpus[i]))
			nc++
		}
	}
	for _, s := range contents {
		c09ContentCase(c, r.Sub(), s)
	}
}

func c09ContentCase(c *Cfg, rr *Rng, s string) {
	b := []byte(s)
	f1 := token.NewFile("c09.cue", -1, len(b))
	f1.SetLinesForContent(b)
	f2 := token.NewFile("c09.cue", -1, len(b))
	func() {
		defer func() { recover() }()
		var sc scanner.Scanner
		sc.Init(f2, b, nil, scanner.ScanComments)
		for i := 0; i <= 2*len(b)+2; i++ {
			if _, tok, _ := sc.Scan(); tok == token.EOF {
				break
			}
		}
	}()
	c.Op("I", "content "+H(s), c09Ints(f1.Lines())+" "+c09Ints(f2.Lines()))
	c.Case("content "+H(s), strings.Contains(s, "\n"))
	switch {
	case strings.Contains(s, "\r\n"):
		c.Count("content/crlf")
	case strings.Contains(s, "\n"):
		c.Count("content/lf")
	default:
		c.Count("content/one-line")
	}
	// the definition from the content, on the table the scanner built
	probe := []int{0, len(b), len(b) - 1}
	for i := 0; i < len(b) && len(probe) < 40; i++ {
		if b[i] == '\n' && rr.Chance(1, 2) {
			probe = append(probe, i, i+1)
		}
	}
	for i := 0; i < 6; i++ {
		probe = append(probe, rr.Intn(len(b)+1))
	}
	for _, o := range probe {
		if o < 0 {
			continue
		}
		lim := min(o, len(b)-1)
		if lim < 0 {
			lim = 0
		}
		line, start := 1, 0
		for i := 0; i < lim; i++ {
			if b[i] == '\n' {
				line++
				start = i + 1
			}
		}
		pos := f2.Position(f2.Pos(o, 0))
		c.Direct(pos.Line == line && pos.Column == o-start+1 && pos.Offset == o, "position-differs-from-content",
			fmt.Sprintf("offset %d: Position says %d:%d, the content says %d:%d", o, pos.Line, pos.Column, line, o-start+1), map[string]any{"content_hex": H(s), "offset": o})
		if why := c09GoodPosition(f2, o, pos); why != "" {
			c.Direct(false, "position-not-within-line-table", "token.File.Position: "+why, map[string]any{"content_hex": H(s), "offset": o})
		}
	}
}
