package main

// C20 — case runner: evaluates the property's predicates on each package (in parallel),
// shrinks failing inputs, attaches narrow class tags, and records statistics.

import (
	"fmt"
	"regexp"
	"sort"
	"strings"
	"sync"
)

type c20Case struct {
	origin string
	pkg    c20Pkg
	feats  map[string]bool
	res    *c20Result
	shrunk map[string]c20Pkg // per failing class
}

func c20RunCases(c *Cfg, cases []*c20Case, perDecl bool) {
	var wg sync.WaitGroup
	sem := make(chan struct{}, 12)
	for _, cs := range cases {
		wg.Add(1)
		sem <- struct{}{}
		go func(cs *c20Case) {
			defer wg.Done()
			defer func() { <-sem }()
			cs.res = c20CheckPkgOpts(cs.pkg, c20Opts{perDecl: perDecl})
			if len(cs.res.fails) > 0 {
				cs.shrunk = map[string]c20Pkg{}
				for _, f := range cs.res.fails {
					if _, ok := cs.shrunk[f.class]; !ok {
						cs.shrunk[f.class] = c20Shrink(cs.pkg, f.class, 60)
					}
				}
			}
		}(cs)
	}
	wg.Wait()
	for _, cs := range cases {
		c20Report(c, cs)
	}
}

var c20predicates = []string{"trimmed-loads", "eval-unchanged", "idempotent", "removals-implied"}

func c20Report(c *Cfg, cs *c20Case) {
	r := cs.res
	fam := strings.SplitN(cs.origin, ":", 2)[0]
	if r.skipped != "" && len(r.fails) == 0 {
		c.Count(fam + "/skipped-" + r.skipped)
		return
	}
	c.Count(fam + "/cases")
	nontrivial := len(r.removed)+len(r.replaced) > 0
	c.Case(cs.pkg.String(), nontrivial)
	if nontrivial {
		c.Count(fam + "/cases-with-removals")
	}
	c.Count(fmt.Sprintf("removed-declarations/%s", c20bucket(len(r.removed)+len(r.replaced))))
	if r.before.nInc > 0 {
		c.Count("input/has-incomplete-values")
	}
	for f := range cs.feats {
		c.Count("feature/" + f)
		if nontrivial {
			c.Count("feature-with-removal/" + f)
		}
	}
	c.Trace()
	failed := map[string][]c20Fail{}
	for _, f := range r.fails {
		failed[f.class] = append(failed[f.class], f)
	}
	// the four predicates of the property, each evaluated on this package
	groups := map[string][]string{
		"trimmed-loads":    {"trim-panic", "trim-error", "trimmed-unformattable", "trimmed-unloadable", "eval-panic"},
		"eval-unchanged":   {"eval-changed"},
		"idempotent":       {"not-idempotent", "retrim-error"},
		"removals-implied": {"removed-alone-changes", "removed-alone-unloadable", "readded-alone-changes"},
	}
	for _, pred := range c20predicates {
		var hit []c20Fail
		for _, cl := range groups[pred] {
			hit = append(hit, failed[cl]...)
		}
		if len(hit) == 0 {
			c.Direct(true, pred, "", nil)
			continue
		}
		f := hit[0]
		sh := cs.shrunk[f.class]
		tag := f.class + c20Tag(f.class, sh)
		c.Count("failing/" + tag)
		c.Direct(false, tag, f.what, map[string]any{
			"origin": cs.origin, "package": cs.pkg.String(), "minimised": sh.String(),
			"trimmed": r.trimmed.String(), "all_failures": c20failTexts(r.fails),
		})
	}
}

func c20failTexts(fs []c20Fail) []string {
	var out []string
	for _, f := range fs {
		out = append(out, f.class+": "+f.what)
	}
	return out
}

func c20bucket(n int) string {
	switch {
	case n == 0:
		return "0"
	case n <= 2:
		return "1-2"
	case n <= 5:
		return "3-5"
	}
	return "6+"
}

// c20Tag derives a narrow syntactic class from the MINIMISED failing package: which
// constructs are still present once nothing more can be deleted.
func c20Tag(class string, p c20Pkg) string {
	src := strings.Join(p.Srcs, "\n")
	var fs []string
	add := func(cond bool, name string) {
		if cond {
			fs = append(fs, name)
		}
	}
	add(regexp.MustCompile(`\bfor\b[^{]*\bin\b`).MatchString(src), "for")
	add(regexp.MustCompile(`(^|[\s{,])if\s`).MatchString(src), "if")
	add(strings.Contains(src, "[string]") || regexp.MustCompile(`\[\w*=?=~`).MatchString(src) || regexp.MustCompile(`\[\w+=string\]`).MatchString(src), "pattern")
	add(strings.Contains(src, "*"), "default")
	add(regexp.MustCompile(`[^|]\|[^|_]`).MatchString(src) && !strings.Contains(src, "*"), "disj")
	add(regexp.MustCompile(`\blet\b`).MatchString(src), "let")
	add(strings.Contains(src, "..."), "ellipsis")
	add(regexp.MustCompile(`:\s*\[`).MatchString(src), "list")
	add(strings.Contains(src, "#"), "def")
	add(strings.Contains(src, "?:") || strings.Contains(src, "!:"), "optfield")
	add(strings.Contains(src, "close("), "close")
	add(strings.Contains(src, "import "), "import")
	add(len(p.Names) > 1, "multifile")
	sort.Strings(fs)
	if len(fs) == 0 {
		return "/plain"
	}
	return "/" + strings.Join(fs, "+")
}

// ---- generated packages ---------------------------------------------------------------

func c20Generated(c *Cfg, r *Rng) {
	n := c.Pick(1500, 30000)
	if c.Focus {
		n = c.Pick(3000, 30000)
	}
	batch := 500
	for done := 0; done < n; done += batch {
		var cases []*c20Case
		for i := 0; i < batch && done+i < n; i++ {
			sub := r.Sub()
			p, feats := c20GenPackage(sub, sub.Chance(1, 10))
			cases = append(cases, &c20Case{origin: fmt.Sprintf("generated:%d", done+i), pkg: p, feats: feats})
		}
		c20RunCases(c, cases, !c.Focus)
	}
}

// ---- testdata seeds ---------------------------------------------------------------------

func c20Seeds(c *Cfg, r *Rng) {
	seeds := c20LoadSeeds()
	c.Count(fmt.Sprintf("seeds/testdata-archives-%d", len(seeds)))
	var cases []*c20Case
	for _, s := range seeds {
		p := s.pkg.clone()
		for i := range p.Srcs {
			if !regexp.MustCompile(`(?m)^package\s`).MatchString(p.Srcs[i]) {
				p.Srcs[i] = "package p\n\n" + p.Srcs[i]
			}
		}
		cases = append(cases, &c20Case{origin: "seed:" + s.name, pkg: p, feats: map[string]bool{"seed-unmodified": true}})
		nm := c.Pick(6, 60)
		for k := 0; k < nm; k++ {
			sub := r.Sub()
			q, ok := c20MutateValues(sub, p, 1+sub.Intn(3))
			feats := map[string]bool{"seed-mutated": true}
			if !ok {
				continue
			}
			if sub.Chance(1, 3) {
				if q2, ok := c20Resplit(sub, q); ok {
					q = q2
					feats["seed-resplit"] = true
				}
			}
			cases = append(cases, &c20Case{origin: fmt.Sprintf("seedmut:%s:%d", s.name, k), pkg: q, feats: feats})
		}
		if q, ok := c20Resplit(r.Sub(), p); ok {
			cases = append(cases, &c20Case{origin: "seedsplit:" + s.name, pkg: q, feats: map[string]bool{"seed-resplit": true}})
		}
	}
	c20RunCases(c, cases, !c.Focus)
}
