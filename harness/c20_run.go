package main

// C20 — case runner: evaluates the property's predicates on each package (in parallel),
// shrinks failing inputs, attaches narrow class tags, and records statistics.

import (
	"bytes"
	"encoding/json"
	"fmt"
	"os"
	"os/exec"
	"path/filepath"
	"regexp"
	"runtime/debug"
	"sort"
	"strings"
	"sync"
	"sync/atomic"
	"time"

	"cuelang.org/go/cue/ast"
	"cuelang.org/go/cue/token"
)

type c20Case struct {
	origin  string
	pkg     c20Pkg
	feats   map[string]bool
	res     *c20Result
	shrunk  map[string]c20Pkg // per failing class
	perDecl bool              // the per-declaration variants were evaluated
}

// Cases are evaluated in re-exec'ed worker processes: trim.Files can recurse without bound
// (a fatal, unrecoverable stack overflow in Go), so the harness must survive the death of
// whatever runs it.  Worker protocol: the parent writes a JSON array of c20Job to a file,
// the worker (`-replay worker:<in>:<out>`) appends one JSON line per job to <out>:
// {"i":k,"start":true} before and {"i":k,"res":…} after.
type c20Job struct {
	I       int    `json:"i"`
	Pkg     c20Pkg `json:"pkg"`
	PerDecl bool   `json:"perDecl"`
	Shrink  bool   `json:"shrink"`
	Budget  int    `json:"budget"` // pipeline runs the minimiser may spend per failing class
}

type c20WireFail struct {
	Class string `json:"class"`
	What  string `json:"what"`
	Sem   string `json:"sem,omitempty"`
}

type c20Wire struct {
	I          int               `json:"i"`
	Start      bool              `json:"start,omitempty"`
	Skipped    string            `json:"skipped,omitempty"`
	Removed    []string          `json:"removed,omitempty"`
	Replaced   []string          `json:"replaced,omitempty"`
	Trimmed    c20Pkg            `json:"trimmed"`
	NInc       int               `json:"nInc"`
	NErr       int               `json:"nErr"`
	Valid      bool              `json:"valid"`
	Changed    bool              `json:"changed"`
	SchemaDiff bool              `json:"schemaDiff,omitempty"`
	Fails      []c20WireFail     `json:"fails,omitempty"`
	Shrunk     map[string]c20Pkg `json:"shrunk,omitempty"`
}

func c20Worker(spec string) {
	parts := strings.SplitN(spec, ":", 2)
	if len(parts) != 2 {
		os.Exit(2)
	}
	debug.SetMaxStack(16 << 20)
	b, err := os.ReadFile(parts[0])
	if err != nil {
		os.Exit(2)
	}
	var jobs []c20Job
	if json.Unmarshal(b, &jobs) != nil {
		os.Exit(2)
	}
	f, err := os.OpenFile(parts[1], os.O_CREATE|os.O_WRONLY|os.O_APPEND, 0o666)
	if err != nil {
		os.Exit(2)
	}
	defer f.Close()
	emit := func(w c20Wire) {
		b, _ := json.Marshal(w)
		f.Write(append(b, '\n'))
	}
	c20Beat = func() { f.Write([]byte("\n")) }
	for _, j := range jobs {
		emit(c20Wire{I: j.I, Start: true})
		r := c20CheckPkgOpts(j.Pkg, c20Opts{perDecl: j.PerDecl})
		w := c20Wire{I: j.I, Skipped: r.skipped, Removed: r.removed, Replaced: r.replaced, Trimmed: r.trimmed,
			NInc: r.before.nInc, NErr: r.before.nErr, Valid: r.before.valid, Changed: r.changed, SchemaDiff: r.schemaDiff}
		for _, fl := range r.fails {
			w.Fails = append(w.Fails, c20WireFail{fl.class, fl.what, fl.sem})
		}
		if j.Shrink && len(r.fails) > 0 {
			w.Shrunk = map[string]c20Pkg{}
			for _, fl := range r.fails {
				if _, ok := w.Shrunk[fl.class]; !ok {
					w.Shrunk[fl.class] = c20Shrink(j.Pkg, fl.class, fl.sem, j.Budget)
				}
			}
		}
		emit(w)
	}
}

var c20ScratchCounter atomic.Int64

// c20Beat is called between the (many) trim runs of shrinking / per-declaration variants so
// that the parent's stall detector only fires when ONE pipeline run does not come back.
var c20Beat = func() {}

// c20RunWorker runs jobs in one child; returns the results received and, when the child
// died or stalled, the index (into jobs) of the job it was working on and why.
func c20RunWorker(c *Cfg, jobs []c20Job, perCase time.Duration) (res map[int]c20Wire, culprit int, why string) {
	res = map[int]c20Wire{}
	culprit = -1
	id := c20ScratchCounter.Add(1)
	in := filepath.Join(c.Out, fmt.Sprintf("c20-w%d.in.json", id))
	out := filepath.Join(c.Out, fmt.Sprintf("c20-w%d.out.jsonl", id))
	defer os.Remove(in)
	defer os.Remove(out)
	b, _ := json.Marshal(jobs)
	if os.WriteFile(in, b, 0o666) != nil {
		return res, 0, "harness-io"
	}
	exe, _ := os.Executable()
	cmd := exec.Command(exe, "C20", "-out", filepath.Join(c.Out, fmt.Sprintf("c20-w%d.dir", id)), "-replay", "worker:"+in+":"+out)
	defer os.RemoveAll(filepath.Join(c.Out, fmt.Sprintf("c20-w%d.dir", id)))
	// the work of a worker is sequential: keep the Go runtime of each child small
	cmd.Env = append(os.Environ(), "GOMAXPROCS=2")
	var stderr bytes.Buffer
	cmd.Stderr = &c20tail{max: 4000, buf: &stderr}
	cmd.Stdout = nil
	if err := cmd.Start(); err != nil {
		return res, 0, "harness-io"
	}
	done := make(chan error, 1)
	go func() { done <- cmd.Wait() }()
	read := func() (started int, lastSize int64) {
		started = -1
		b, _ := os.ReadFile(out)
		for _, line := range bytes.Split(b, []byte("\n")) {
			if len(line) == 0 {
				continue
			}
			var w c20Wire
			if json.Unmarshal(line, &w) != nil {
				continue
			}
			if w.Start {
				started = w.I
			} else {
				res[w.I] = w
				if started == w.I {
					started = -1
				}
			}
		}
		return started, int64(len(b))
	}
	lastSize := int64(-1)
	lastChange := time.Now()
	tick := time.NewTicker(500 * time.Millisecond)
	defer tick.Stop()
	for {
		select {
		case err := <-done:
			started, _ := read()
			if err == nil && started < 0 {
				return res, -1, ""
			}
			if started < 0 {
				// died between jobs: blame the first unanswered job
				for k, j := range jobs {
					if _, ok := res[j.I]; !ok {
						return res, k, "worker-died: " + c20lastLines(stderr.String())
					}
				}
				return res, -1, ""
			}
			for k, j := range jobs {
				if j.I == started {
					msg := stderr.String()
					kind := "crash"
					if strings.Contains(msg, "stack exceeds") || strings.Contains(msg, "stack overflow") {
						kind = "stack-overflow"
					}
					return res, k, kind + ": " + c20lastLines(msg)
				}
			}
			return res, -1, ""
		case <-tick.C:
			if st, err := os.Stat(out); err == nil && st.Size() != lastSize {
				lastSize = st.Size()
				lastChange = time.Now()
			} else if time.Since(lastChange) > perCase {
				cmd.Process.Kill()
				<-done
				started, _ := read()
				for k, j := range jobs {
					if j.I == started {
						return res, k, "timeout"
					}
				}
				return res, 0, "timeout"
			}
		}
	}
}

type c20tail struct {
	max int
	buf *bytes.Buffer
}

func (t *c20tail) Write(p []byte) (int, error) {
	// keep the head (the fatal error line is printed first)
	if t.buf.Len() < t.max {
		n := t.max - t.buf.Len()
		if n > len(p) {
			n = len(p)
		}
		t.buf.Write(p[:n])
	}
	return len(p), nil
}

func c20lastLines(s string) string {
	ls := strings.Split(strings.TrimSpace(s), "\n")
	if len(ls) > 3 {
		ls = ls[:3]
	}
	return strings.Join(ls, " | ")
}

func c20PerCaseTimeout() time.Duration {
	// generous: the machine may be heavily loaded
	return 120 * time.Second
}

// c20Crashes: does the package still kill/stall a worker?
func c20Crashes(c *Cfg, p c20Pkg) bool {
	_, culprit, _ := c20RunWorker(c, []c20Job{{I: 0, Pkg: p}}, c20PerCaseTimeout())
	return culprit >= 0
}

func c20ShrinkCrash(c *Cfg, p c20Pkg, maxRuns int) c20Pkg {
	cur := p
	runs := 0
	for progress := true; progress && runs < maxRuns; {
		progress = false
		fs, err := c20parse(cur)
		if err != nil {
			return cur
		}
		keys, _ := c20keysOf("", fs)
		ks := make([]string, 0, len(keys))
		for k := range keys {
			ks = append(ks, k)
		}
		sort.Strings(ks)
		for _, k := range ks {
			if runs >= maxRuns {
				break
			}
			v, err := c20Variant(cur, map[string]bool{k: true}, nil)
			if err != nil || v.equal(cur) {
				continue
			}
			runs++
			if c20Crashes(c, v) {
				cur = v
				progress = true
				break
			}
		}
	}
	return cur
}

func c20RunCases(c *Cfg, cases []*c20Case, perDecl bool) {
	c20RunCasesOpt(c, cases, perDecl, true)
}

// c20RunCasesOpt: report=false only fills in cases[i].res (used by the CLI family, which
// needs the library result of its candidates but reports its own predicates).
func c20RunCasesOpt(c *Cfg, cases []*c20Case, perDecl, report bool) {
	// one worker per ~100 cases (starting a worker costs about a CPU second), at most 12
	nw := 1 + len(cases)/100
	if nw > 12 {
		nw = 12
	}
	// the per-declaration variants multiply the cost of a case by the number of removed
	// declarations: the quick tier evaluates them on every 4th case only
	every := c.Pick(4, 1)
	chunks := make([][]c20Job, nw)
	for i, cs := range cases {
		cs.perDecl = perDecl && i%every == 0
		chunks[i%nw] = append(chunks[i%nw], c20Job{I: i, Pkg: cs.pkg, PerDecl: cs.perDecl, Shrink: report, Budget: c.Pick(25, 60)})
	}
	var mu sync.Mutex
	var wg sync.WaitGroup
	for _, chunk := range chunks {
		wg.Add(1)
		go func(jobs []c20Job) {
			defer wg.Done()
			for len(jobs) > 0 {
				res, culprit, why := c20RunWorker(c, jobs, c20PerCaseTimeout())
				mu.Lock()
				for i, w := range res {
					cases[i].res = c20FromWire(w)
					cases[i].shrunk = w.Shrunk
				}
				mu.Unlock()
				if culprit < 0 {
					return
				}
				j := jobs[culprit]
				class := "trim-crash"
				switch {
				case strings.HasPrefix(why, "timeout"):
					class = "trim-hang"
				case strings.HasPrefix(why, "stack-overflow"):
					class = "trim-stack-overflow"
				}
				r := &c20Result{}
				r.fail(class, "the process running load + trim.Files + re-evaluation on this package did not survive: %s", why)
				sh := j.Pkg
				if !c20HasEmbeddedDisjunction(j.Pkg) {
					// (the known recursion needs no minimisation; anything else does)
					sh = c20ShrinkCrash(c, j.Pkg, 20)
				}
				mu.Lock()
				cases[j.I].res = r
				cases[j.I].shrunk = map[string]c20Pkg{class: sh}
				mu.Unlock()
				var rest []c20Job
				for _, q := range jobs {
					if _, ok := res[q.I]; !ok && q.I != j.I {
						rest = append(rest, q)
					}
				}
				jobs = rest
			}
		}(chunk)
	}
	wg.Wait()
	for _, cs := range cases {
		if cs.res == nil {
			cs.res = &c20Result{skipped: "not-run"}
		}
		if report {
			c20Report(c, cs)
		}
	}
}

func c20FromWire(w c20Wire) *c20Result {
	r := &c20Result{skipped: w.Skipped, removed: w.Removed, replaced: w.Replaced, trimmed: w.Trimmed, changed: w.Changed, schemaDiff: w.SchemaDiff}
	r.before.nInc, r.before.nErr, r.before.valid = w.NInc, w.NErr, w.Valid
	for _, f := range w.Fails {
		r.fails = append(r.fails, c20Fail{f.Class, f.What, f.Sem})
	}
	return r
}

var c20predicates = []string{"trimmed-loads", "eval-unchanged", "idempotent", "removals-implied"}

func c20Report(c *Cfg, cs *c20Case) {
	r := cs.res
	fam := strings.SplitN(cs.origin, ":", 2)[0]
	if r.skipped != "" && len(r.fails) == 0 {
		c.Count(fam + "/skipped-" + r.skipped)
		return
	}
	c.Count(fam + "/cases")
	nontrivial := len(r.removed)+len(r.replaced) > 0
	c.Case(cs.pkg.String(), nontrivial)
	if nontrivial {
		c.Count(fam + "/cases-with-removals")
	}
	c.Count(fmt.Sprintf("removed-declarations/%s", c20bucket(len(r.removed)+len(r.replaced))))
	if r.before.nInc > 0 {
		c.Count("input/has-incomplete-values")
	}
	if r.schemaDiff {
		// same evaluated result, but optional fields / pattern constraints differ
		c.Count("schema-only-difference/" + fam)
	}
	for f := range cs.feats {
		c.Count("feature/" + f)
		if nontrivial {
			c.Count("feature-with-removal/" + f)
		}
	}
	c.Trace()
	failed := map[string][]c20Fail{}
	for _, f := range r.fails {
		failed[f.class] = append(failed[f.class], f)
	}
	// the four predicates of the property, each evaluated on this package
	groups := map[string][]string{
		"trimmed-loads":    {"trim-panic", "trim-error", "trimmed-unformattable", "trimmed-unloadable", "eval-panic", "trim-crash", "trim-hang", "trim-stack-overflow"},
		"eval-unchanged":   {"eval-changed"},
		"idempotent":       {"not-idempotent", "retrim-error"},
		"removals-implied": {"removed-alone-changes", "removed-alone-unloadable", "readded-alone-changes"},
	}
	for _, pred := range c20predicates {
		if pred == "removals-implied" && !cs.perDecl {
			continue
		}
		var hit []c20Fail
		for _, cl := range groups[pred] {
			hit = append(hit, failed[cl]...)
		}
		if len(hit) == 0 {
			c.Direct(true, pred, "", nil)
			continue
		}
		f := hit[0]
		sh := cs.shrunk[f.class]
		tag := f.class + c20TagWhat(f, sh)
		c.Count("failing/" + tag)
		c.Direct(false, tag, f.what, map[string]any{
			"origin": cs.origin, "package": cs.pkg.String(), "minimised": sh.String(),
			"trimmed": r.trimmed.String(), "all_failures": c20failTexts(r.fails),
		})
	}
}

func c20failTexts(fs []c20Fail) []string {
	var out []string
	for _, f := range fs {
		out = append(out, f.class+": "+f.what)
	}
	return out
}

func c20bucket(n int) string {
	switch {
	case n == 0:
		return "0"
	case n <= 2:
		return "1-2"
	case n <= 5:
		return "3-5"
	}
	return "6+"
}

var c20errOnlyRe = regexp.MustCompile(`^\S+: err:[a-z-]+ -> err:[a-z-]+$`)

// c20TagWhat refines c20Tag with what was observed.
func c20TagWhat(f c20Fail, p c20Pkg) string {
	class, what := f.class, f.what
	if f.sem == c20SemLitOperand {
		return "/" + f.sem
	}
	switch class {
	case "eval-changed":
		// only the error CLASS at some paths differs (incomplete <-> eval)?
		if i := strings.Index(what, "differs after trim: "); i >= 0 {
			items := strings.Split(what[i+len("differs after trim: "):], "; ")
			all := len(items) > 0
			for _, it := range items {
				if !c20errOnlyRe.MatchString(strings.TrimSpace(it)) {
					all = false
				}
			}
			if all {
				return "/error-class-only"
			}
		}
		// attribution computed on the ORIGINAL package's evaluated vertices (c20SemanticClass)
		if f.sem != "" {
			return "/" + f.sem
		}
	case "not-idempotent":
		if len(p.Names) > 1 {
			return "/multifile"
		}
	}
	return c20Tag(class, p)
}

// c20Tag derives a narrow syntactic class from the MINIMISED failing package: which
// constructs are still present once nothing more can be deleted.
func c20Tag(class string, p c20Pkg) string {
	if strings.HasPrefix(class, "trim-stack-overflow") || strings.HasPrefix(class, "trim-hang") || strings.HasPrefix(class, "trim-crash") {
		if c20HasEmbeddedDisjunction(p) {
			return "/embedded-disjunction"
		}
	}
	src := strings.Join(p.Srcs, "\n")
	var fs []string
	add := func(cond bool, name string) {
		if cond {
			fs = append(fs, name)
		}
	}
	add(regexp.MustCompile(`\bfor\b[^{]*\bin\b`).MatchString(src), "for")
	add(regexp.MustCompile(`(^|[\s{,])if\s`).MatchString(src), "if")
	add(strings.Contains(src, "[string]") || regexp.MustCompile(`\[\w*=?=~`).MatchString(src) || regexp.MustCompile(`\[\w+=string\]`).MatchString(src), "pattern")
	add(strings.Contains(src, "*"), "default")
	add(regexp.MustCompile(`[^|]\|[^|_]`).MatchString(src) && !strings.Contains(src, "*"), "disj")
	add(regexp.MustCompile(`\blet\b`).MatchString(src), "let")
	add(strings.Contains(src, "..."), "ellipsis")
	add(regexp.MustCompile(`:\s*\[`).MatchString(src), "list")
	add(strings.Contains(src, "#"), "def")
	add(strings.Contains(src, "?:") || strings.Contains(src, "!:"), "optfield")
	add(strings.Contains(src, "close("), "close")
	add(strings.Contains(src, "import "), "import")
	add(len(p.Names) > 1, "multifile")
	sort.Strings(fs)
	if len(fs) == 0 {
		return "/plain"
	}
	return "/" + strings.Join(fs, "+")
}

// ---- generated packages ---------------------------------------------------------------

func c20Generated(c *Cfg, r *Rng) {
	n := c.Pick(250, 10000)
	if c.Focus {
		n = c.Pick(1500, 10000)
	}
	batch := 2000
	for done := 0; done < n; done += batch {
		var cases []*c20Case
		for i := 0; i < batch && done+i < n; i++ {
			sub := r.Sub()
			p, feats := c20GenPackage(sub, sub.Chance(1, 10))
			cases = append(cases, &c20Case{origin: fmt.Sprintf("generated:%d", done+i), pkg: p, feats: feats})
		}
		c20RunCases(c, cases, !c.Focus)
	}
}

// ---- testdata seeds ---------------------------------------------------------------------

func c20Seeds(c *Cfg, r *Rng) {
	seeds := c20LoadSeeds()
	c.Count(fmt.Sprintf("seeds/testdata-archives-%d", len(seeds)))
	var cases []*c20Case
	for _, s := range seeds {
		p := s.pkg.clone()
		for i := range p.Srcs {
			if !regexp.MustCompile(`(?m)^package\s`).MatchString(p.Srcs[i]) {
				p.Srcs[i] = "package p\n\n" + p.Srcs[i]
			}
		}
		cases = append(cases, &c20Case{origin: "seed:" + s.name, pkg: p, feats: map[string]bool{"seed-unmodified": true}})
		nm := c.Pick(1, 25)
		for k := 0; k < nm; k++ {
			sub := r.Sub()
			q, ok := c20MutateValues(sub, p, 1+sub.Intn(3))
			feats := map[string]bool{"seed-mutated": true}
			if !ok {
				continue
			}
			if sub.Chance(1, 3) {
				if q2, ok := c20Resplit(sub, q); ok {
					q = q2
					feats["seed-resplit"] = true
				}
			}
			cases = append(cases, &c20Case{origin: fmt.Sprintf("seedmut:%s:%d", s.name, k), pkg: q, feats: feats})
		}
		if q, ok := c20Resplit(r.Sub(), p); ok && (c.Thorough() || len(cases)%3 == 0) {
			cases = append(cases, &c20Case{origin: "seedsplit:" + s.name, pkg: q, feats: map[string]bool{"seed-resplit": true}})
		}
	}
	c20RunCases(c, cases, !c.Focus)
}

// c20HasEmbeddedDisjunction: some struct literal embeds a disjunction (`{ {a} | {b} }`).
func c20HasEmbeddedDisjunction(p c20Pkg) bool {
	fs, err := c20parse(p)
	if err != nil {
		return false
	}
	found := false
	for _, f := range fs {
		ast.Walk(f, func(n ast.Node) bool {
			if e, ok := n.(*ast.EmbedDecl); ok {
				x := e.Expr
				for {
					if pe, ok := x.(*ast.ParenExpr); ok {
						x = pe.X
						continue
					}
					break
				}
				if b, ok := x.(*ast.BinaryExpr); ok && b.Op == token.OR {
					found = true
				}
			}
			return !found
		}, nil)
	}
	return found
}
