package main

// C01 — order-insensitive canonical form of a finalized value tree.
//
// canon(v) describes, at every path of the finalized adt.Vertex tree:
//   * error / incomplete STATUS (the adt.ErrorCode class only, never message text),
//   * the arcs with their label class (regular / hidden / definition; let fields are not
//     part of the value and are skipped) and arc type (member, `!`, `?`), SORTED by label,
//   * pattern constraints as a sorted set of (pattern, constraint) pairs,
//   * closedness: the vertex's closed flags + `...`, plus Value.Allows for probe labels,
//   * scalars (numbers normalised), basic types, bounds, validators; residual conjunctions
//     as a sorted set,
//   * lists: elements IN ORDER, open/closed,
//   * disjunctions: a sorted SET of canonical disjuncts with their default marks, and the
//     resolved default.
// Nothing in the form depends on the order of arcs, conjuncts or disjuncts in the vertex.

import (
	"fmt"
	"sort"
	"strings"

	"cuelang.org/go/cue"
	"cuelang.org/go/internal/core/adt"
	"cuelang.org/go/internal/core/eval"
	"cuelang.org/go/internal/core/runtime"
	"cuelang.org/go/internal/core/subsume"
	"cuelang.org/go/internal/value"
)

type c1canon struct {
	r      *runtime.Runtime
	ctx    *adt.OpContext
	budget int // nodes left; the form is cut with "<cut>" when exhausted
	stack  map[*adt.Vertex]bool
	probes []string // labels probed with Accept at every struct node
	// summary facts collected on the way (for class tagging / statistics)
	nErr, nInc, nStruct, nList, nDisj, nPattern, nClosed int
	cut                                                   bool
	// path tracking (top-level traversal only, not inside disjuncts/patterns/defaults)
	track   bool
	curPath string
	owns    []*strings.Builder
	paths   map[string]c1node
}

// c1node: a node's own description (children cut out) and its full canonical form.
type c1node struct {
	own, full string
	childErr  string // class of the descendant's error the node reports ("" if none)
}

func c1errClass(b *adt.Bottom) string {
	switch b.Code {
	case adt.IncompleteError, adt.CycleError:
		// Bottom.IsIncomplete(): a reference cycle is an incomplete error
		return "incomplete"
	case adt.StructuralCycleError:
		return "structural_cycle"
	default:
		// eval / user / legacy user: fatal
		return "eval"
	}
}

func c1arcMark(t adt.ArcType) string {
	switch t {
	case adt.ArcMember:
		return ""
	case adt.ArcRequired:
		return "!"
	case adt.ArcOptional:
		return "?"
	}
	return "~"
}

func (k *c1canon) label(f adt.Feature) string {
	switch {
	case f.IsInt():
		return fmt.Sprintf("#%d", f.Index())
	case f.IsString():
		return fmt.Sprintf("%q", f.StringValue(k.r))
	default:
		// definitions and hidden fields (hidden ones carry their package qualifier)
		s := f.IdentString(k.r)
		return s
	}
}

func c1num(x *adt.Num) string {
	d := x.X
	var r = d
	r.Reduce(&d)
	kind := "f"
	if x.K&adt.IntKind != 0 {
		kind = "i"
	}
	return kind + r.Text('G')
}

// value renders a non-vertex adt.Value (scalars, types, bounds, validators, …).
func (k *c1canon) value(x adt.Value) string {
	switch x := x.(type) {
	case nil:
		return "<nil>"
	case *adt.Vertex:
		var sb strings.Builder
		k.untracked(func() { k.vertex(x, &sb) })
		return sb.String()
	case *adt.Num:
		return c1num(x)
	case *adt.String:
		return fmt.Sprintf("%q", x.Str)
	case *adt.Bytes:
		return fmt.Sprintf("'%x'", x.B)
	case *adt.Bool:
		if x.B {
			return "true"
		}
		return "false"
	case *adt.Null:
		return "null"
	case *adt.Top:
		return "_"
	case *adt.BasicType:
		return "T(" + x.K.String() + ")"
	case *adt.BoundValue:
		return x.Op.String() + k.value(x.Value)
	case *adt.BuiltinValidator:
		args := make([]string, len(x.Args))
		for i, a := range x.Args {
			args[i] = k.value(a)
		}
		name := ""
		if x.Builtin != nil {
			name = x.Builtin.Package.IdentString(k.r) + "." + x.Builtin.Name
		}
		return "V:" + name + "(" + strings.Join(args, ",") + ")"
	case *adt.Builtin:
		return "B:" + x.Name
	case *adt.Conjunction:
		parts := make([]string, 0, len(x.Values))
		for _, v := range x.Values {
			parts = append(parts, k.value(v))
		}
		sort.Strings(parts)
		parts = c1uniq(parts)
		return "&(" + strings.Join(parts, ",") + ")"
	case *adt.Disjunction:
		return k.disjunction(x)
	case *adt.Bottom:
		k.countErr(x)
		return "_|_(" + c1errClass(x) + ")"
	}
	return fmt.Sprintf("<%T>", x)
}

func (k *c1canon) countErr(b *adt.Bottom) {
	if b.IsIncomplete() {
		k.nInc++
	} else {
		k.nErr++
	}
}

func c1uniq(xs []string) []string {
	out := xs[:0]
	for i, x := range xs {
		if i == 0 || x != xs[i-1] {
			out = append(out, x)
		}
	}
	return out
}

// disjunction renders ⟨v, d⟩ of the spec: the value set (all disjuncts) and the default set
// (the marked ones), each as a sorted set of canonical forms reduced to its MAXIMAL elements
// (a disjunct subsumed by another one adds nothing to the union: `a | a&b` denotes `a`; the
// evaluator does not simplify by subsumption, so `x & x` may list `a&b` in addition).
func (k *c1canon) disjunction(x *adt.Disjunction) string {
	k.nDisj++
	type dj struct {
		s   string
		def bool
		v   adt.Value
	}
	idx := map[string]int{}
	var ds []dj
	for i, v := range x.Values {
		s := k.value(v)
		def := i < x.NumDefaults
		if j, ok := idx[s]; ok {
			ds[j].def = ds[j].def || def
			continue
		}
		idx[s] = len(ds)
		ds = append(ds, dj{s, def, v})
	}
	sort.Slice(ds, func(i, j int) bool { return ds[i].s < ds[j].s })
	maximal := func(sel func(dj) bool) []string {
		var cand []dj
		for _, d := range ds {
			if sel(d) {
				cand = append(cand, d)
			}
		}
		var out []string
		for i, d := range cand {
			dropped := false
			if len(cand) <= 16 {
				for j, e := range cand {
					if i == j {
						continue
					}
					if k.subsumes(e.v, d.v) && (!k.subsumes(d.v, e.v) || j < i) {
						dropped = true
						break
					}
				}
			}
			if !dropped {
				out = append(out, d.s)
			}
		}
		return out
	}
	vs := maximal(func(dj) bool { return true })
	dsel := maximal(func(d dj) bool { return d.def })
	if len(vs) == 1 && (len(dsel) == 0 || (len(dsel) == 1 && dsel[0] == vs[0])) {
		// a disjunction with a single (maximal) disjunct denotes that disjunct
		return vs[0]
	}
	s := "|(" + strings.Join(vs, ",")
	if len(dsel) > 0 {
		s += ";*" + strings.Join(dsel, ",*")
	}
	return s + ")"
}

func (k *c1canon) subsumes(a, b adt.Value) (ok bool) {
	defer func() {
		if recover() != nil {
			ok = false
		}
	}()
	return subsume.Value(k.ctx, a, b) == nil
}

// w writes to the canonical form and, while tracking, to the own-description of the node
// being rendered.
func (k *c1canon) w(sb *strings.Builder, s string) {
	sb.WriteString(s)
	if k.track && len(k.owns) > 0 {
		k.owns[len(k.owns)-1].WriteString(s)
	}
}

func (k *c1canon) ownOnly(s string) {
	if k.track && len(k.owns) > 0 {
		k.owns[len(k.owns)-1].WriteString(s)
	}
}

func (k *c1canon) untracked(f func()) {
	t := k.track
	k.track = false
	f()
	k.track = t
}

func (k *c1canon) vertex(v *adt.Vertex, sb *strings.Builder) {
	if v == nil {
		sb.WriteString("<nil>")
		return
	}
	v.Finalize(k.ctx)
	v = v.DerefValue()
	if k.budget <= 0 {
		k.cut = true
		sb.WriteString("<cut>")
		return
	}
	k.budget--
	if k.stack[v] {
		sb.WriteString("<cyc>")
		return
	}
	k.stack[v] = true
	defer delete(k.stack, v)
	if k.track {
		start := sb.Len()
		path := k.curPath
		k.owns = append(k.owns, &strings.Builder{})
		defer func() {
			own := k.owns[len(k.owns)-1].String()
			k.owns = k.owns[:len(k.owns)-1]
			n := c1node{own: own, full: sb.String()[start:]}
			if b, ok := v.BaseValue.(*adt.Bottom); ok && b.ChildError {
				n.childErr = c1errClass(b)
			}
			k.paths[path] = n
		}()
	}

	switch b := v.BaseValue.(type) {
	case *adt.Bottom:
		k.countErr(b)
		if b.ChildError {
			// the node is a struct/list whose error is that of a descendant: the
			// descendants carry the status (derived, so not part of the own description)
			sb.WriteString("_|_(" + c1errClass(b) + ",child)")
			isList := false
			for _, a := range v.Arcs {
				if a.Label.IsInt() {
					isList = true
				}
			}
			if isList {
				// openness is not recorded on an erroneous list: `...` shows as the
				// pattern constraint of the node
				k.list(v, sb, false)
				return
			}
			k.arcs(v, sb)
			return
		}
		k.w(sb, "_|_("+c1errClass(b)+")")
		return
	case nil:
		k.w(sb, "<unevaluated>")
		return
	case *adt.StructMarker:
		k.nStruct++
		k.arcs(v, sb)
	case *adt.ListMarker:
		k.nList++
		k.list(v, sb, b.IsOpen)
	case *adt.Vertex:
		// DerefValue should have removed this
		k.untracked(func() { k.vertex(b, sb) })
	case adt.Value:
		var s string
		k.untracked(func() { s = k.value(b) })
		k.w(sb, s)
		// scalars may still carry definitions / hidden fields (embedded scalars)
		k.nonListArcs(v, sb)
	default:
		k.w(sb, fmt.Sprintf("<%T>", b))
	}
	// resolved default of a disjunction
	if d, ok := v.BaseValue.(*adt.Disjunction); ok && d.NumDefaults > 0 {
		dv := v.Default()
		if dv != v && strings.HasSuffix(sb.String(), ")") {
			var ds strings.Builder
			k.untracked(func() { k.vertex(dv, &ds) })
			k.w(sb, "=>"+ds.String())
		}
	}
}

func (k *c1canon) list(v *adt.Vertex, sb *strings.Builder, open bool) {
	k.w(sb, "[")
	n := 0
	for _, a := range v.Arcs {
		if !a.Label.IsInt() {
			continue
		}
		if a.ArcType == adt.ArcNotPresent || a.ArcType == adt.ArcPending {
			continue
		}
		if n > 0 {
			k.w(sb, ",")
		}
		k.w(sb, c1arcMark(a.ArcType))
		path := k.curPath
		k.curPath = fmt.Sprintf("%s/%d", path, n)
		n++
		if k.track {
			var cs strings.Builder
			k.vertex(a, &cs)
			sb.WriteString(cs.String())
			k.ownOnly("·")
		} else {
			k.vertex(a, sb)
		}
		k.curPath = path
	}
	if open {
		k.w(sb, ",...")
	}
	k.w(sb, "]")
	k.patterns(v, sb)
	k.nonListArcs(v, sb)
}

func (k *c1canon) nonListArcs(v *adt.Vertex, sb *strings.Builder) {
	has := false
	for _, a := range v.Arcs {
		if !a.Label.IsInt() && !a.Label.IsLet() {
			has = true
		}
	}
	if has {
		k.w(sb, "+")
		k.arcs(v, sb)
	}
}

func (k *c1canon) patterns(v *adt.Vertex, sb *strings.Builder) {
	if v.PatternConstraints == nil || len(v.PatternConstraints.Pairs) == 0 {
		return
	}
	var parts []string
	k.untracked(func() {
		for _, p := range v.PatternConstraints.Pairs {
			k.nPattern++
			// The constraint vertex is a TEMPLATE (its conjuncts evaluated without a field);
			// finalizing it standalone yields closedness errors that no field ever sees, in
			// an order-dependent way. Only the pattern and the KIND of the constraint are
			// part of the form; what a pattern does to a field shows at that field.
			var s strings.Builder
			s.WriteString("[" + k.value(p.Pattern) + "]")
			parts = append(parts, s.String())
		}
	})
	sort.Strings(parts)
	parts = c1uniq(parts)
	k.w(sb, "P{"+strings.Join(parts, ";")+"}")
}

func (k *c1canon) arcs(v *adt.Vertex, sb *strings.Builder) {
	type ent struct{ key, head, s string }
	var ents []ent
	for _, a := range v.Arcs {
		if a.Label.IsLet() || a.Label.IsInt() {
			continue
		}
		if a.ArcType == adt.ArcNotPresent || a.ArcType == adt.ArcPending {
			continue
		}
		var s strings.Builder
		lab := k.label(a.Label)
		path := k.curPath
		k.curPath = path + "/" + lab
		k.vertex(a, &s)
		k.curPath = path
		ents = append(ents, ent{lab, lab + c1arcMark(a.ArcType) + ":", s.String()})
	}
	sort.Slice(ents, func(i, j int) bool { return ents[i].key < ents[j].key })
	k.w(sb, "{")
	for i, e := range ents {
		if i > 0 {
			k.w(sb, ",")
		}
		k.w(sb, e.head)
		sb.WriteString(e.s)
		k.ownOnly("·")
	}
	k.w(sb, "}")
	k.patterns(v, sb)
	// closedness
	fl := ""
	if v.ClosedRecursive {
		fl += "R"
	}
	if v.ClosedNonRecursive {
		fl += "C"
	}
	if v.HasEllipsis {
		fl += "E"
	}
	if fl != "" {
		k.nClosed++
		k.w(sb, "<"+fl+">")
	}
	if len(k.probes) > 0 {
		k.w(sb, "A")
		for _, p := range k.probes {
			f := adt.MakeStringLabel(k.r, p)
			if k.accept(v, f) {
				k.w(sb, "1")
			} else {
				k.w(sb, "0")
			}
		}
	}
}

func (k *c1canon) accept(v *adt.Vertex, f adt.Feature) (ok bool) {
	defer func() {
		if recover() != nil {
			ok = false
		}
	}()
	if v.HasEllipsis {
		return true
	}
	return v.Accept(k.ctx, f)
}

// c1Canon computes the canonical form of a cue.Value; budget bounds the number of nodes.
func c1Canon(val cue.Value, probes []string, budget int) (s string, k *c1canon) {
	r, v := value.ToInternal(val)
	k = &c1canon{r: r, ctx: eval.NewContext(r, v), budget: budget, stack: map[*adt.Vertex]bool{}, probes: probes,
		track: true, paths: map[string]c1node{}}
	var sb strings.Builder
	k.vertex(v, &sb)
	return sb.String(), k
}
