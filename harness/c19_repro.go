package main

// C19: replay of a single case file under the race detector / stress:
//   <harness> C19 -replay repro:<case.json>[:<rounds>] -out <dir>
// case.json = a c19Case (src, src2, mode, calls, g). The case is rebuilt and run
// `rounds` times (fresh context each time); with a -race binary the reports go to stderr.

import (
	"encoding/json"
	"fmt"
	"os"
	"strconv"
	"strings"
	"time"
)

func c19Repro(spec string) {
	rounds := 200
	if i := strings.LastIndexByte(spec, ':'); i >= 0 {
		if n, err := strconv.Atoi(spec[i+1:]); err == nil {
			rounds, spec = n, spec[:i]
		}
	}
	b, err := os.ReadFile(spec)
	if err != nil {
		fmt.Fprintln(os.Stderr, err)
		os.Exit(3)
	}
	var cs c19Case
	if err := json.Unmarshal(b, &cs); err != nil {
		fmt.Fprintln(os.Stderr, err)
		os.Exit(3)
	}
	if cs.G < 2 {
		cs.G = 2
	}
	for len(cs.Skew) < cs.G {
		cs.Skew = append(cs.Skew, 0)
	}
	diffs, seqdiffs := 0, 0
	for n := 0; n < rounds; n++ {
		var alone []string
		for _, call := range cs.Calls {
			alone = append(alone, c19Exec(c19Build(&cs), call))
		}
		// one goroutine, one shared value, the calls one after the other
		shs := c19Build(&cs)
		for k, call := range cs.Calls {
			if c19Exec(shs, call) != alone[k] {
				seqdiffs++
			}
		}
		sh := c19Build(&cs)
		res := c19RunCase(&cs, sh, 60*time.Second)
		if res == nil {
			fmt.Println("TIMEOUT")
			return
		}
		for k := range res {
			if res[k] != alone[k] {
				diffs++
				if diffs < 5 {
					fmt.Printf("DIFF round %d call %s\n concurrent: %s\n alone:      %s\n", n, cs.Calls[k], c19Clip(res[k]), c19Clip(alone[k]))
				}
			}
		}
	}
	fmt.Printf("rounds=%d diffs=%d (concurrent vs alone) seqdiffs=%d (sequential on one shared value vs alone)\n", rounds, diffs, seqdiffs)
}
