package main

// C01 — the LISTS stream: nodes unified from 2–4 list conjuncts drawn from open lists
// (`[a, ...]`, `[a, b, ...T]`, `[...T]`), closed lists of lengths 0–3, lists built by a
// comprehension over a LITERAL list (order-stable, unlike field comprehensions), lists with an
// `if` comprehension yielding 0/1 elements, and list-typed fields referenced from elsewhere —
// as one conjunction (random grouping) and as split declarations; the rearranger supplies every
// operand order, grouping, split/merge and multi-file partition. List length bookkeeping in the
// evaluator (maxListLen / listIsClosed, tasks.go processListLit) is updated conjunct by
// conjunct, i.e. is order sensitive by construction.

import (
	"fmt"
	"strings"
)

type c1listgen struct{ r *Rng }

func (g *c1listgen) elem() string {
	return Pick(g.r, []string{"1", "1", "int", "_", "number", ">0", "1"})
}

func (g *c1listgen) elem2() string {
	return Pick(g.r, []string{"2", "2", "int", "_", "<5", "2"})
}

// conj draws one list conjunct; refs are the list-typed fields that may be referenced. Three
// draws out of four fit a node of `target` elements (open prefix ≤ target, closed / built
// lists of exactly target elements), so that many nodes are valid; the rest is unrestricted.
func (g *c1listgen) conj(refs []string, target int) string {
	if target == 0 || g.r.Chance(1, 4) {
		return g.anyConj(refs)
	}
	e, e2 := g.elem(), g.elem2()
	switch w := g.r.Intn(100); {
	case w < 25: // open, prefix ≤ target
		c := []string{"[" + e + ", ...]", "[" + e + ", ...int]", "[...int]", "[...]", "[_, ...]", "[for v in [1] {v}, ...]", "[if k1 == 1 {1}, ...]"}
		if target >= 2 {
			c = append(c, "["+e+", "+e2+", ...]", "["+e+", "+e2+", ...int]", "[1, if false {2}, ...]")
		}
		return Pick(g.r, c)
	case w < 50: // closed, exactly target
		switch target {
		case 1:
			return Pick(g.r, []string{"[" + e + "]", "[1]", "[_]"})
		case 2:
			return Pick(g.r, []string{"[" + e + ", " + e2 + "]", "[1, 2]", "[_, _]"})
		}
		return "[" + e + ", " + e2 + ", 3]"
	case w < 72: // built by a comprehension over a literal list, exactly target
		switch target {
		case 1:
			return Pick(g.r, []string{"[for v in [1] {v}]", "[for v in [1] {int}]", "[for i, v in [1] {v}]"})
		case 2:
			return Pick(g.r, []string{"[for v in [1, 2] {v}]", "[for i, v in [1, 2] {v}]", "[for v in [1] {v}, 2]", "[1, for v in [2] {v}]"})
		}
		return "[for v in [1, 2, 3] {v}]"
	case w < 88: // `if` comprehension, exactly target
		switch target {
		case 1:
			return Pick(g.r, []string{"[if true {1}]", "[1, if k1 > 1 {2}]", "[if k1 > 1 {1}, 1]", "[if false {2}, 1]"})
		case 2:
			return Pick(g.r, []string{"[1, if k1 == 1 {2}]", "[if true {1}, 2]", "[1, if true {2}]"})
		}
		return "[1, 2, if true {3}]"
	default:
		if len(refs) > 0 {
			return Pick(g.r, refs)
		}
		return "[" + e + ", ...]"
	}
}

func (g *c1listgen) anyConj(refs []string) string {
	switch w := g.r.Intn(100); {
	case w < 22: // open
		return Pick(g.r, []string{
			"[" + g.elem() + ", ...]", "[" + g.elem() + ", ...int]", "[" + g.elem() + ", " + g.elem2() + ", ...]",
			"[" + g.elem() + ", " + g.elem2() + ", ...int]", "[...int]", "[...]", "[_, ...]"})
	case w < 48: // closed, lengths 0–3
		return Pick(g.r, []string{
			"[" + g.elem() + "]", "[" + g.elem() + "]", "[" + g.elem() + ", " + g.elem2() + "]",
			"[" + g.elem() + ", " + g.elem2() + "]", "[" + g.elem() + ", " + g.elem2() + ", 3]", "[]", "[_, _]"})
	case w < 68: // comprehension over a literal list
		return Pick(g.r, []string{
			"[for v in [1] {v}]", "[for v in [1, 2] {v}]", "[for i, v in [1, 2] {v}]", "[for v in [1] {v}, ...]",
			"[for v in [1] {v}, 2]", "[1, for v in [2] {v}]", "[for v in [1, 2, 3] {v}]", "[for v in [] {v}]",
			"[for v in [1] {int}]"})
	case w < 84: // `if` comprehension yielding 0/1 elements
		return Pick(g.r, []string{
			"[if true {1}]", "[if false {1}]", "[1, if k1 == 1 {2}]", "[1, if k1 > 1 {2}]", "[if k1 == 1 {1}, ...]",
			"[if k1 > 1 {1}, 1]", "[1, if false {2}, ...]"})
	default:
		if len(refs) > 0 {
			return Pick(g.r, refs)
		}
		return "[" + g.elem() + "]"
	}
}

func (g *c1listgen) Program() string {
	lines := []string{"k1: 1"}
	var refs []string
	for i, name := range []string{"L", "M"} {
		if g.r.Chance(2, 3) {
			lines = append(lines, name+": "+g.conj(nil, 1+g.r.Intn(2)))
			refs = append(refs, name)
		}
		_ = i
	}
	nodes := 2 + g.r.Intn(3)
	for i := 0; i < nodes; i++ {
		name := string(rune('x' - i%3)) // x w v
		if i >= 3 {
			name = "u"
		}
		n := 2 + g.r.Intn(3)
		cs := make([]string, n)
		target := 1 + g.r.Intn(2)
		if g.r.Chance(1, 8) {
			target = 3
		}
		for j := range cs {
			cs[j] = g.conj(refs, target)
		}
		switch g.r.Intn(4) {
		case 0: // split declarations
			for _, c := range cs {
				lines = append(lines, name+": "+c)
			}
		case 1: // right-nested grouping
			s := cs[n-1]
			for j := n - 2; j >= 0; j-- {
				s = cs[j] + " & (" + s + ")"
			}
			lines = append(lines, name+": "+s)
		case 2: // first as a declaration, rest as a conjunction
			lines = append(lines, name+": "+cs[0], name+": "+strings.Join(cs[1:], " & "))
		default:
			lines = append(lines, name+": "+strings.Join(cs, " & "))
		}
		// the node becomes a list-typed field others may refer to
		if g.r.Chance(1, 3) {
			refs = append(refs, name)
		}
	}
	if g.r.Chance(1, 3) {
		lines = append(lines, fmt.Sprintf("s: {l: %s, l: %s}", g.conj(refs, 1), g.conj(refs, 1)))
	}
	return strings.Join(lines, "\n") + "\n"
}
