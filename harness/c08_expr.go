package main

// C08: correspondence between the Lean model (Model/Fmt.lean) and the implementation on
// the expression core, and direct predicates on programmatically built expression ASTs.

import (
	"fmt"
	"strings"

	"cuelang.org/go/cue/ast"
	"cuelang.org/go/cue/format"
	"cuelang.org/go/cue/parser"
	"cuelang.org/go/cue/scanner"
	"cuelang.org/go/cue/token"
)

var c08OpToks = []token.Token{token.ADD, token.SUB, token.MUL, token.QUO, token.AND, token.OR, token.LAND, token.LOR,
	token.BIND, token.EQL, token.LSS, token.GTR, token.NOT, token.ARROW, token.NEQ, token.LEQ, token.GEQ, token.MAT,
	token.NMAT, token.LPAREN, token.LBRACK, token.LBRACE, token.COMMA, token.PERIOD, token.ELLIPSIS, token.RPAREN,
	token.RBRACK, token.RBRACE, token.SEMICOLON, token.COLON, token.OPTION, token.TILDE}

var c08BinOps = []token.Token{token.OR, token.AND, token.LOR, token.LAND, token.EQL, token.NEQ, token.LSS, token.LEQ,
	token.GTR, token.GEQ, token.MAT, token.NMAT, token.ADD, token.SUB, token.MUL, token.QUO}

var c08UnOps = []token.Token{token.ADD, token.SUB, token.NOT, token.MUL, token.LSS, token.LEQ, token.GEQ, token.GTR,
	token.NEQ, token.MAT, token.NMAT, token.EQL}

func c08IsModelOp(t token.Token) bool {
	for _, o := range c08OpToks {
		if o == t {
			return true
		}
	}
	return false
}

// c08Scan runs the real scanner (comma insertion off) and renders the tokens in the model's
// canonical form; anything outside the modelled fragment gives "none".
func c08Scan(src string) (res string) {
	defer func() {
		if r := recover(); r != nil {
			res = "panic"
		}
	}()
	var s scanner.Scanner
	f := token.NewFile("", -1, len(src))
	bad := false
	s.Init(f, []byte(src), func(pos token.Pos, msg string, args []interface{}) { bad = true }, scanner.DontInsertCommas|scanner.ScanComments)
	// a NUMBER directly followed by a letter (`1a` = INT IDENT, `1K`, `1e5`) is outside the model
	isL := func(b byte) bool { return b >= 'a' && b <= 'z' || b >= 'A' && b <= 'Z' }
	isD := func(b byte) bool { return b >= '0' && b <= '9' }
	for i := 0; i < len(src); {
		if !isL(src[i]) && !isD(src[i]) {
			i++
			continue
		}
		j := i
		for j < len(src) && (isL(src[j]) || isD(src[j])) {
			j++
		}
		if isD(src[i]) {
			for k := i; k < j; k++ {
				if isL(src[k]) {
					return "none"
				}
			}
			if j < len(src) && src[j] == '.' { // `1.` float, `1...` INT ELLIPSIS: outside the model
				return "none"
			}
		}
		i = j
	}
	var out []string
	for {
		_, tok, lit := s.Scan()
		if tok == token.EOF {
			break
		}
		switch {
		case tok == token.INT:
			for _, ch := range lit {
				if ch < '0' || ch > '9' {
					bad = true
				}
			}
			out = append(out, "N"+lit)
		case tok == token.IDENT || tok.IsKeyword():
			if tok != token.IDENT {
				lit = tok.String()
			}
			for _, ch := range lit {
				if !(ch >= 'a' && ch <= 'z' || ch >= 'A' && ch <= 'Z' || ch >= '0' && ch <= '9') {
					bad = true
				}
			}
			out = append(out, "I"+lit)
		case c08IsModelOp(tok):
			out = append(out, fmt.Sprint(int(tok)))
		default:
			bad = true
		}
		if len(out) > 10000 {
			bad = true
			break
		}
	}
	if bad {
		return "none"
	}
	if len(out) == 0 {
		return "-"
	}
	return strings.Join(out, " ")
}

func c08Tables(c *Cfg) {
	// precedence, unary-operator set and spelling of every token number
	for n := 0; n < 64; n++ {
		t := token.Token(n)
		c.Op("I", fmt.Sprintf("prec %d", n), fmt.Sprint(t.Precedence()))
		isOp := t.IsOperator() && t != token.POW
		sp := "none"
		if isOp {
			sp = H(t.String())
		}
		c.Op("I", fmt.Sprintf("spell %d", n), sp)
		un := false
		if isOp {
			if e, err := parser.ParseExpr("", t.String()+" x"); err == nil {
				if u, ok := e.(*ast.UnaryExpr); ok && u.Op == t {
					un = true
				}
			}
		}
		c.Op("I", fmt.Sprintf("unop %d", n), fmt.Sprint(un))
	}
	// the hazard table against the real scanner: do two adjacent operator tokens stay two tokens?
	for _, a := range c08OpToks {
		for _, b := range c08OpToks {
			want := fmt.Sprintf("%d %d", int(a), int(b))
			got := c08Scan(a.String() + b.String())
			c.Op("I", fmt.Sprintf("hazard %d %d", int(a), int(b)), fmt.Sprint(got != want))
		}
	}
	// maximal munch on every short string over the operator alphabet (+ a letter, a digit, a blank)
	alpha := []byte("+-*/&|=<>!~()[]{},.:?; a1")
	maxLen := c.Pick(3, 4)
	var rec func(prefix []byte)
	rec = func(prefix []byte) {
		if len(prefix) > 0 {
			c.Op("I", "scan "+H(string(prefix)), c08Scan(string(prefix)))
			c.Count("scan-strings")
		}
		if len(prefix) == maxLen {
			return
		}
		for _, ch := range alpha {
			rec(append(append([]byte{}, prefix...), ch))
		}
	}
	rec(nil)
}

// ---- expression trees of the model fragment -----------------------------------------

type c08Expr struct {
	wire string
	node ast.Expr
}

var c08Idents = []string{"a", "b", "c", "x1", "foo", "Z"}
var c08Ints = []string{"0", "1", "2", "42", "100"}

func c08Atom(r *Rng) c08Expr {
	if r.Chance(1, 8) {
		// a negative number built as ONE literal (what the exporter produces for `< -1`); wire `M<digits>`
		s := Pick(r, []string{"1", "2", "42"})
		return c08Expr{"M" + s, ast.NewLit(token.INT, "-"+s)}
	}
	if r.Chance(2, 5) {
		s := Pick(r, c08Ints)
		return c08Expr{"N" + s, ast.NewLit(token.INT, s)}
	}
	s := Pick(r, c08Idents)
	return c08Expr{"I" + s, ast.NewIdent(s)}
}

func c08Un(op token.Token, x c08Expr) c08Expr {
	return c08Expr{fmt.Sprintf("U%d(%s)", int(op), x.wire), &ast.UnaryExpr{Op: op, X: x.node}}
}
func c08Bin(op token.Token, x, y c08Expr) c08Expr {
	return c08Expr{fmt.Sprintf("B%d(%s,%s)", int(op), x.wire, y.wire), &ast.BinaryExpr{Op: op, X: x.node, Y: y.node}}
}
func c08Paren(x c08Expr) c08Expr {
	return c08Expr{"P(" + x.wire + ")", &ast.ParenExpr{X: x.node}}
}

func c08GenExpr(r *Rng, depth int) c08Expr {
	if depth <= 0 || r.Chance(1, 5) {
		return c08Atom(r)
	}
	switch k := r.Intn(10); {
	case k < 3:
		op := Pick(r, c08UnOps)
		if r.Chance(1, 3) { // the comparison operators whose continuation characters are hazards
			op = Pick(r, []token.Token{token.LSS, token.GTR, token.NOT})
		}
		return c08Un(op, c08GenExpr(r, depth-1))
	case k < 9:
		op := Pick(r, c08BinOps)
		if r.Chance(1, 2) {
			op = Pick(r, []token.Token{token.ADD, token.SUB, token.MUL, token.QUO})
		}
		return c08Bin(op, c08GenExpr(r, depth-1), c08GenExpr(r, depth-1))
	default:
		return c08Paren(c08GenExpr(r, depth-1))
	}
}

// c08Wire converts a parsed expression of the fragment back to the wire format.
func c08Wire(e ast.Expr) (string, bool) {
	switch x := e.(type) {
	case *ast.Ident:
		return "I" + x.Name, true
	case *ast.BasicLit:
		if x.Kind == token.INT {
			return "N" + x.Value, true
		}
		if x.Kind == token.TRUE || x.Kind == token.FALSE || x.Kind == token.NULL {
			return "I" + x.Value, true
		}
	case *ast.UnaryExpr:
		s, ok := c08Wire(x.X)
		return fmt.Sprintf("U%d(%s)", int(x.Op), s), ok
	case *ast.BinaryExpr:
		a, ok1 := c08Wire(x.X)
		b, ok2 := c08Wire(x.Y)
		return fmt.Sprintf("B%d(%s,%s)", int(x.Op), a, b), ok1 && ok2
	case *ast.ParenExpr:
		s, ok := c08Wire(x.X)
		return "P(" + s + ")", ok
	}
	return "?", false
}

func c08NodeFmt(e ast.Expr) (out string, err error) {
	defer func() {
		if r := recover(); r != nil {
			err = fmt.Errorf("panic: %v", r)
		}
	}()
	b, err := format.Node(e)
	return string(b), err
}

func c08ExprOps(c *Cfg, e c08Expr) {
	merge := hasUnaryMerge(e.node)
	chain := hasRightNestedChain(e.node)
	hasOrAnd := strings.Contains(e.wire, "B18(") || strings.Contains(e.wire, "B19(")
	c.Case("expr:"+e.wire, strings.ContainsAny(e.wire, "UB"))
	c.Count(fmt.Sprintf("expr-size:%d", min(strings.Count(e.wire, "(")/4*4, 40)))
	for _, v2 := range []bool{true, false} {
		setFormatter(v2)
		mode, tag := "v1", ""
		if v2 {
			mode = "v2"
			if chain {
				tag = "v2-programmatic-right-nested-or-and-chain-flattened"
				c.Count("expr-v2-right-nested-chain-shape")
			}
		}
		if merge { // a unary operator followed by an operand it would merge with: no special treatment
			c.Count("expr-unary-merge-shape")
		}
		out, err := c08NodeFmt(e.node)
		if err != nil {
			c.Direct(false, "node-fmt-fails-"+mode, "format.Node fails on a programmatic expression: "+oneLine(err.Error()), e.wire)
			continue
		}
		// O: the token stream the formatter wrote, as the real scanner sees it
		c.OpTag("O", tag, fmt.Sprintf("print %s %s", mode, e.wire), c08Scan(out))
		// O: the tree the output parses to
		norm := "noparse"
		pe, perr := parser.ParseExpr("", out)
		if perr == nil {
			if w, ok := c08Wire(pe); ok {
				norm = w
			} else {
				norm = "outside-fragment:" + w
			}
		}
		c.OpTag("O", tag, fmt.Sprintf("norm %s %s", mode, e.wire), norm)
		// I: the exact characters (blank policy); multi-line layouts are outside the model
		if !strings.Contains(out, "\n") && !strings.Contains(e.wire, "M") { // (blanks after a binary - before a negative literal are not modelled)
			if v2 {
				// `|` / `&` chains go through chainGroupArms (arms rendered afresh, soft line breaks):
				// not modelled at the character level; their tokens are compared by the O ops above
				if !hasOrAnd {
					c.Op("I", "fmt2 "+e.wire, H(out))
				}
			} else {
				c.Op("I", "fmt1 "+e.wire, H(out))
			}
		} else {
			c.Count("expr-multiline-output-" + mode)
		}
		// direct: formatting the re-parsed output again changes nothing
		if perr == nil {
			out2, err2 := c08NodeFmt(pe)
			ok := err2 == nil && out2 == out
			cls := "programmatic-expr-spacing-not-idempotent-" + mode
			if tag != "" {
				cls = tag
			} else if strings.Contains(e.wire, "M") && !v2 {
				cls = "v1-programmatic-negative-literal-spacing-not-idempotent"
			}
			c.Direct(ok, cls, fmt.Sprintf("format.Node(parse(out)) != out: %q then %q (%v)", out, out2, err2), e.wire)
		}
	}
}

// hasRightNestedChain: `x | (y | z)` / `x & (y & z)` built WITHOUT a ParenExpr node.
func hasRightNestedChain(e ast.Expr) bool {
	found := false
	ast.Walk(e, func(n ast.Node) bool {
		if b, ok := n.(*ast.BinaryExpr); ok && (b.Op == token.OR || b.Op == token.AND) {
			if y, ok := b.Y.(*ast.BinaryExpr); ok && y.Op == b.Op {
				found = true
			}
		}
		return !found
	}, nil)
	return found
}

func c08ExprCases(c *Cfg, r *Rng) {
	a := c08Expr{"Ia", ast.NewIdent("a")}
	one := c08Expr{"N1", ast.NewLit(token.INT, "1")}
	mk := func(e c08Expr) c08Expr { // fresh nodes for every use (format.Node may annotate nodes)
		return e
	}
	_ = mk
	// the witness of C08_v1_policy_safe_false and its relatives, always
	for _, p := range [][2]token.Token{{token.LSS, token.SUB}, {token.LSS, token.MAT}, {token.NOT, token.MAT},
		{token.GTR, token.MAT}, {token.LSS, token.LEQ}, {token.NOT, token.NEQ}, {token.LSS, token.LSS}} {
		c08ExprOps(c, c08Un(p[0], c08Un(p[1], c08Expr{"Ia", ast.NewIdent("a")})))
	}
	// ... and with the negative number as a single literal (guards extended by 9a3bd4a)
	for _, op := range c08UnOps {
		c08ExprOps(c, c08Un(op, c08Expr{"M1", ast.NewLit(token.INT, "-1")}))
		c08ExprOps(c, c08Bin(token.LSS, c08Expr{"Ia", ast.NewIdent("a")}, c08Un(op, c08Expr{"M42", ast.NewLit(token.INT, "-42")})))
	}
	if !c.Focus {
		// exhaustive: every tree with at most two operator nodes over {a, 1}, with and without parentheses
		atoms := []func() c08Expr{
			func() c08Expr { return c08Expr{a.wire, ast.NewIdent("a")} },
			func() c08Expr { return c08Expr{one.wire, ast.NewLit(token.INT, "1")} },
		}
		var level1 []func() c08Expr
		for _, at := range atoms[:1] {
			at := at
			for _, op := range c08UnOps {
				op := op
				level1 = append(level1, func() c08Expr { return c08Un(op, at()) })
			}
			for _, op := range c08BinOps {
				op := op
				level1 = append(level1, func() c08Expr { return c08Bin(op, at(), atoms[1]()) })
			}
		}
		for _, l1 := range level1 {
			c08ExprOps(c, l1())
			c08ExprOps(c, c08Paren(c08Paren(l1())))
			for _, op := range c08UnOps {
				c08ExprOps(c, c08Un(op, l1()))
			}
			for _, op := range c08BinOps {
				c08ExprOps(c, c08Bin(op, l1(), atoms[0]()))
				c08ExprOps(c, c08Bin(op, atoms[0](), l1()))
			}
		}
	}
	n := c.Pick(6000, 120000)
	if c.Focus {
		n = c.Pick(20000, 200000)
	}
	for i := 0; i < n; i++ {
		rr := r.Sub()
		c08ExprOps(c, c08GenExpr(rr, 1+rr.Intn(6)))
	}
	// parser + scanner model: model-printed text with random extra blanks and redundant parentheses
	m := c.Pick(4000, 60000)
	for i := 0; i < m; i++ {
		rr := r.Sub()
		e := c08GenExpr(rr, 1+rr.Intn(5))
		setFormatter(true)
		out, err := c08NodeFmt(e.node)
		if err != nil || strings.Contains(out, "\n") {
			continue
		}
		var sb strings.Builder
		for _, ch := range out {
			if ch == ' ' && rr.Chance(1, 3) {
				sb.WriteString("  ")
				continue
			}
			sb.WriteRune(ch)
			if (ch == '(' || ch == ')') && rr.Chance(1, 4) {
				sb.WriteByte(' ')
			}
		}
		txt := sb.String()
		if rr.Chance(1, 5) {
			txt = "(" + txt + ")"
		}
		ans := "none"
		if pe, err := parser.ParseExpr("", txt); err == nil {
			if w, ok := c08Wire(pe); ok {
				ans = w
			}
		}
		c.Op("I", "parse "+H(txt), ans)
	}
	c08ExtendedExprs(c, r.Sub())
}

// ---- programmatic ASTs beyond the model fragment: direct predicates only ---------------

func c08GenExt(r *Rng, depth int) ast.Expr {
	if depth <= 0 || r.Chance(1, 6) {
		switch r.Intn(6) {
		case 0:
			if r.Chance(1, 3) {
				return ast.NewLit(token.INT, "-"+Pick(r, c08Ints))
			}
			return ast.NewLit(token.INT, Pick(r, c08Ints))
		case 1:
			return ast.NewString(Pick(r, []string{"s", "a b", ""}))
		case 2:
			return ast.NewLit(token.FLOAT, Pick(r, []string{"1.5", "0.25", "-1.5"}))
		}
		return ast.NewIdent(Pick(r, c08Idents))
	}
	sub := func() ast.Expr { return c08GenExt(r, depth-1) }
	switch r.Intn(12) {
	case 0, 1:
		return &ast.UnaryExpr{Op: Pick(r, c08UnOps), X: sub()}
	case 2, 3, 4:
		return &ast.BinaryExpr{Op: Pick(r, c08BinOps), X: sub(), Y: sub()}
	case 5:
		return &ast.ParenExpr{X: sub()}
	case 6:
		return &ast.SelectorExpr{X: sub(), Sel: ast.NewIdent(Pick(r, c08Idents))}
	case 7:
		return &ast.IndexExpr{X: sub(), Index: sub()}
	case 8:
		n := r.Intn(3)
		args := make([]ast.Expr, n)
		for i := range args {
			args[i] = sub()
		}
		return &ast.CallExpr{Fun: sub(), Args: args}
	case 9:
		var lo, hi ast.Expr
		if r.Bool() {
			lo = sub()
		}
		if r.Bool() {
			hi = sub()
		}
		return &ast.SliceExpr{X: sub(), Low: lo, High: hi}
	case 10:
		n := r.Intn(3)
		el := make([]ast.Expr, n)
		for i := range el {
			el[i] = sub()
		}
		return &ast.ListLit{Elts: el}
	default:
		n := r.Intn(3)
		var fields []any
		for i := 0; i < n; i++ {
			fields = append(fields, ast.NewIdent(Pick(r, c08Idents)), sub())
		}
		return ast.NewStruct(fields...)
	}
}

// c08ExtClass: the narrow syntactic shape of a programmatic AST the formatters are known to mishandle.
func c08ExtClass(e ast.Expr, v2 bool) string {
	cls := ""
	ast.Walk(e, func(n ast.Node) bool {
		var recv ast.Expr
		switch x := n.(type) {
		case *ast.SelectorExpr:
			recv = x.X
			if l, ok := x.X.(*ast.BasicLit); ok && l.Kind == token.INT && v2 && cls == "" {
				cls = "v2-programmatic-int-literal-selector-merges"
			}
		case *ast.IndexExpr:
			recv = x.X
		case *ast.SliceExpr:
			recv = x.X
		case *ast.CallExpr:
			recv = x.Fun
		}
		if _, ok := recv.(*ast.UnaryExpr); ok && v2 && cls == "" {
			cls = "v2-programmatic-unary-operand-in-primary-position-not-parenthesised"
		}
		if l, ok := recv.(*ast.BasicLit); ok && strings.HasPrefix(l.Value, "-") && cls == "" {
			// `-1` built as ONE literal used as the operand of a selector / index / slice / call
			cls = "programmatic-negative-literal-in-primary-position-not-parenthesised"
		}
		return true
	}, nil)
	if cls == "" && v2 && hasRightNestedChain(e) {
		cls = "v2-programmatic-right-nested-or-and-chain-flattened"
	}
	return cls
}

func c08ExtendedExprs(c *Cfg, r *Rng) {
	n := c.Pick(4000, 60000)
	for i := 0; i < n; i++ {
		rr := r.Sub()
		seed := rr.s
		for _, v2 := range []bool{true, false} {
			setFormatter(v2)
			mode := "v1"
			if v2 {
				mode = "v2"
			}
			e := c08GenExt(&Rng{s: seed}, 1+int(seed%5))
			want := dumpNode(e, dumpOpts{eraseParen: true, noComments: true})
			c.Case("ext:"+want, true)
			out, err := c08NodeFmt(e)
			cls := c08ExtClass(e, v2)
			if cls == "" {
				cls = "programmatic-expr-" + mode
			}
			if err != nil {
				c.Direct(false, cls, "format.Node fails on a programmatic expression: "+oneLine(err.Error()), want)
				continue
			}
			pe, perr := parser.ParseExpr("", out)
			if perr != nil {
				c.Direct(false, cls, fmt.Sprintf("[%s] output of format.Node does not parse: %q: %v", mode, out, oneLine(perr.Error())), want)
				continue
			}
			got := dumpNode(pe, dumpOpts{eraseParen: true, noComments: true})
			c.Direct(got == want, cls, fmt.Sprintf("[%s] output %q parses to a different tree: %s", mode, out, firstDiff(want, got)), want)
		}
	}
}
