package main

// C02: input generators.
//
// (a) raw byte strings: every .cue source and txtar section under $VERIF_REPO as seeds,
//     plus byte/line level mutations;
// (b) generated well-formed programs in the core fragment, including erroneous and cyclic
//     ones.

import (
	"bytes"
	"fmt"
	"io/fs"
	"os"
	"path/filepath"
	"sort"
	"strings"
)

type c02Seed struct {
	Name string
	Src  []byte
}

// c02LoadSeeds collects every .cue file and every txtar section that looks like CUE
// (name ends in .cue, or an `in`/`out` golden section of the evaluator tests is skipped)
// up to maxSize bytes.  The order is deterministic (sorted by name).
func c02LoadSeeds(repo string, maxSize int) []c02Seed {
	var seeds []c02Seed
	seen := map[string]bool{}
	add := func(name string, src []byte) {
		if len(src) == 0 || len(src) > maxSize {
			return
		}
		k := string(src)
		if seen[k] {
			return
		}
		seen[k] = true
		seeds = append(seeds, c02Seed{name, src})
	}
	filepath.WalkDir(repo, func(path string, d fs.DirEntry, err error) error {
		if err != nil {
			return nil
		}
		if d.IsDir() {
			n := d.Name()
			if n == ".git" || n == "node_modules" || (n == "verifharness") {
				return filepath.SkipDir
			}
			return nil
		}
		rel, _ := filepath.Rel(repo, path)
		switch {
		case strings.HasSuffix(path, ".cue"):
			if b, err := os.ReadFile(path); err == nil {
				add(rel, b)
			}
		case strings.HasSuffix(path, ".txtar") || strings.HasSuffix(path, ".txt") && strings.Contains(path, "testdata/script"):
			b, err := os.ReadFile(path)
			if err != nil || len(b) > 4<<20 {
				return nil
			}
			for _, s := range c02Txtar(b) {
				if strings.HasSuffix(s.Name, ".cue") {
					add(rel+":"+s.Name, s.Src)
				}
			}
		}
		return nil
	})
	sort.Slice(seeds, func(i, j int) bool { return seeds[i].Name < seeds[j].Name })
	return seeds
}

// c02Txtar splits a txtar archive into its sections.
func c02Txtar(b []byte) []c02Seed {
	var out []c02Seed
	var cur *c02Seed
	for _, line := range bytes.SplitAfter(b, []byte("\n")) {
		t := bytes.TrimRight(line, "\r\n")
		if bytes.HasPrefix(t, []byte("-- ")) && bytes.HasSuffix(t, []byte(" --")) && len(t) > 6 {
			out = append(out, c02Seed{Name: strings.TrimSpace(string(t[3 : len(t)-3]))})
			cur = &out[len(out)-1]
			continue
		}
		if cur != nil {
			cur.Src = append(cur.Src, line...)
		}
	}
	return out
}

var c02Dict = []string{
	"{", "}", "[", "]", "(", ")", ":", ",", "&", "|", "*", "?", "!", "...", "=~", "!~", "==", "!=", "<=", ">=", "<", ">",
	"+", "-", "/", "div", "mod", "quo", "rem", "for", "in", "if", "let", "import", "package", "_|_", "_", "null", "true",
	"int", "string", "number", "bytes", "float", "bool", "close(", "and([", "or([", "len(", "\"", "'", "\"\"\"", "'''",
	"#\"", "\"#", "\\(", "//", "/*", "@a(b)", "#D", "_h", "_#H", "a", "b", "x.y", "x[0]", "[string]:", "[=~\"a\"]:",
	"1e999999999", "1e-999999999", "0x", "0b", "1_", "1K", "1Ki", ".5", "5.", "1.2.3", "\x00", "\xff", "\ufeff", "\u2028",
	"=", "$", "`", "\\", "\n", "\t", " ", "<-", "->", "..", "1Mi*1Mi", "a?:", "a!:", "(a):", "\"\\(a)\":",
}

// c02Mutate returns a mutation of src (using other as a splice partner); the name of the
// mutation kind is returned for the distribution.
func c02Mutate(r *Rng, src, other []byte, maxSize int) ([]byte, string) {
	cp := func(b []byte) []byte { return append([]byte(nil), b...) }
	pos := func(b []byte) int { return r.Intn(len(b) + 1) }
	insert := func(b []byte, at int, ins []byte) []byte {
		out := make([]byte, 0, len(b)+len(ins))
		out = append(out, b[:at]...)
		out = append(out, ins...)
		return append(out, b[at:]...)
	}
	var out []byte
	kind := ""
	switch k := r.Intn(16); k {
	case 0:
		kind = "identity"
		out = cp(src)
	case 1:
		kind = "truncate"
		cut := pos(src)
		if r.Chance(2, 3) && len(src) > 0 {
			// cut right after a byte that is likely to be inside or at the end of a literal /
			// operator: digits, '.', exponent letters, quotes, backslash, '(', '#', operators
			for tries := 0; tries < 40; tries++ {
				j := r.Intn(len(src))
				if strings.IndexByte("0123456789.eExXbo_\"'\\(#<>=!~&|*+-/:?[{,KMGTPi", src[j]) >= 0 {
					cut = j + 1
					break
				}
			}
		}
		out = cp(src[:cut])
	case 2:
		kind = "splice"
		out = append(cp(src[:pos(src)]), other[pos(other):]...)
	case 3:
		kind = "dup-region"
		if len(src) == 0 {
			out = cp(src)
			break
		}
		a := r.Intn(len(src))
		b := a + r.Intn(min(len(src)-a, 200)+1)
		reps := 1 + r.Intn(4)
		out = cp(src[:b])
		for i := 0; i < reps; i++ {
			out = append(out, src[a:b]...)
		}
		out = append(out, src[b:]...)
	case 4:
		kind = "flip-bytes"
		out = cp(src)
		for i := 0; i < 1+r.Intn(4) && len(out) > 0; i++ {
			j := r.Intn(len(out))
			switch r.Intn(3) {
			case 0:
				out[j] ^= 1 << uint(r.Intn(8))
			case 1:
				out[j] = byte(r.Intn(256))
			default:
				out[j] = Pick(r, []byte("{}[]()\"'\\#:,&|*?!._-\n /"))
			}
		}
	case 5:
		kind = "deep-nesting"
		n := 1 << uint(2+r.Intn(10)) // 4 … 2048
		n = min(n, maxSize/4)
		pairs := [][2]string{{"[", "]"}, {"{a:", "}"}, {"(", ")"}, {"{", "}"}, {"[...", "]"}, {"a:", ""}, {"-", ""}, {"!", ""},
			{"\"\\(", ")\""}, {"[for x in [1] ", "]"}, {"if true {", "}"}, {"{[string]:", "}"}, {"a.", ""}, {"a[", "]"}, {"len(", ")"}, {"1&(", ")"}, {"*", ""}, {"<", ""}}
		pr := Pick(r, pairs)
		open := pr[0]
		n = min(n, maxSize/(len(pr[0])+len(pr[1])+1))
		var ins bytes.Buffer
		ins.WriteString("\nzz: ")
		ins.WriteString(strings.Repeat(open, n))
		if r.Chance(3, 4) {
			ins.WriteString("1")
			if r.Chance(3, 4) {
				ins.WriteString(strings.Repeat(pr[1], n))
			} else {
				ins.WriteString(strings.Repeat(pr[1], r.Intn(n+1)))
			}
		}
		ins.WriteString("\n")
		if r.Chance(1, 2) {
			out = insert(src, len(src), ins.Bytes())
		} else {
			out = insert(src, pos(src), ins.Bytes())
		}
	case 6:
		kind = "long-chain"
		n := 1 << uint(1+r.Intn(9))
		op := Pick(r, []string{" & ", " | ", " + ", " * ", " && ", " == ", " - ", "."})
		operand := Pick(r, []string{"1", "a", "(1|2)", "{a: 1}", "[1]", "int", ">0", "\"s\"", "*1|2", "_", "{}", "(*1|2)", "x1", "#D"})
		var ins bytes.Buffer
		ins.WriteString("\nzc: ")
		for i := 0; i < n; i++ {
			if i > 0 {
				ins.WriteString(op)
			}
			ins.WriteString(operand)
		}
		ins.WriteString("\n")
		out = insert(src, len(src), ins.Bytes())
	case 7:
		kind = "huge-number"
		num := Pick(r, []string{"1e999999999", "1e-999999999", "-1e999999999", "1e2147483648", "1e9223372036854775808",
			strings.Repeat("9", 1+r.Intn(3000)), "0." + strings.Repeat("0", r.Intn(3000)) + "1", "1E+99999", "0x" + strings.Repeat("f", 1+r.Intn(2000)),
			"1e999999999 * 1e999999999", "1e999999 + 1", "1 / 1e999999", "1e-999999 div 1", "1e400 mod 7", "9223372036854775808", "1Ei*1Ei*1Ei",
			"0b" + strings.Repeat("1", 1+r.Intn(2000)), "1.0e-6176", "1e6145", "[1][1e30]", "\"a\"*1e30", "[1]*1e9", "1e30*[1]", "\"ab\"[1e30]"})
		ins := []byte("\nzn: " + num + "\n")
		if r.Chance(1, 2) || len(src) == 0 {
			out = insert(src, len(src), ins)
		} else {
			// replace a digit run somewhere
			out = cp(src)
			for tries := 0; tries < 20; tries++ {
				j := r.Intn(len(out))
				if out[j] >= '0' && out[j] <= '9' {
					out = insert(out[:j+copy(out[j:], out[j+1:])], j, []byte(num))
					break
				}
			}
		}
	case 8:
		kind = "long-string"
		n := 1 << uint(3+r.Intn(10))
		n = min(n, maxSize-1)
		body := strings.Repeat(Pick(r, []string{"a", "\\n", "\\u00e9", "é", "\\(1)", "\\\\", "'", " ", "\\U0010FFFF"}), n/2)
		q := Pick(r, [][2]string{{"\"", "\""}, {"'", "'"}, {"#\"", "\"#"}, {"\"\"\"\n", "\n\"\"\""}, {"'''\n", "\n'''"}, {"##\"", "\"##"}})
		out = insert(src, len(src), []byte("\nzs: "+q[0]+body+q[1]+"\n"))
	case 9:
		kind = "interp-nesting"
		n := 1 << uint(1+r.Intn(8))
		var ins bytes.Buffer
		ins.WriteString("\nzi: ")
		for i := 0; i < n; i++ {
			ins.WriteString("\"x\\(")
		}
		ins.WriteString("1")
		if r.Chance(3, 4) {
			for i := 0; i < n; i++ {
				ins.WriteString(")y\"")
			}
		}
		ins.WriteString("\n")
		out = insert(src, len(src), ins.Bytes())
	case 10:
		kind = "unterminated"
		tail := Pick(r, []string{"\"abc", "\"\"\"", "\"\"\"\n  abc", "'''", "'ab", "#\"abc\"", "/* abc", "//", "\"\\(", "\"\\(a", "\"a\\", "{", "[", "(", "a:", "a: 1 &",
			"a: {b:", "#\"\"\"\n", "\"\\u12", "'\\x", "a: \"\\(\"\\(", "@attr(", "@attr(\"", "import \"", "import (", "package", "let x =", "for x in", "if", "[for", "a: b.", "a: b[", "...", "a: *", "\\"})
		if r.Chance(2, 3) {
			out = append(cp(src), []byte("\n"+tail)...)
		} else {
			out = insert(src, pos(src), []byte(tail))
		}
	case 11:
		kind = "line-ops"
		lines := bytes.SplitAfter(src, []byte("\n"))
		if len(lines) < 2 {
			out = cp(src)
			break
		}
		for i := 0; i < 1+r.Intn(3); i++ {
			a, b := r.Intn(len(lines)), r.Intn(len(lines))
			switch r.Intn(3) {
			case 0:
				lines[a], lines[b] = lines[b], lines[a]
			case 1:
				lines = append(lines[:a], lines[min(a+1, len(lines)):]...)
				if len(lines) == 0 {
					lines = [][]byte{nil}
				}
			default:
				lines = append(lines, lines[a])
			}
		}
		out = bytes.Join(lines, nil)
	case 12, 13:
		kind = "insert-tokens"
		out = cp(src)
		for i := 0; i < 1+r.Intn(5); i++ {
			out = insert(out, pos(out), []byte(Pick(r, c02Dict)))
		}
	case 14:
		kind = "delete-region"
		if len(src) == 0 {
			out = cp(src)
			break
		}
		a := r.Intn(len(src))
		b := a + r.Intn(min(len(src)-a, 40)+1)
		out = append(cp(src[:a]), src[b:]...)
	default:
		kind = "self-reference"
		// turn some value into a reference to a label of the same file
		labels := c02Labels(src)
		if len(labels) == 0 {
			out = cp(src)
			break
		}
		out = cp(src)
		for i := 0; i < 1+r.Intn(3); i++ {
			l := Pick(r, labels)
			j := bytes.Index(out[r.Intn(len(out)):], []byte(": "))
			if j < 0 {
				continue
			}
			expr := Pick(r, []string{l, l + " & {" + l + ": _}", l + "." + Pick(r, labels), "{" + l + "}", l + " | " + Pick(r, labels), "[" + l + "]", "close(" + l + ")", l + " + 1"})
			// insert "expr & " after that ": "
			at := bytes.Index(out, []byte(": ")) // fall back to first
			if k := r.Intn(len(out)); bytes.Index(out[k:], []byte(": ")) >= 0 {
				at = k + bytes.Index(out[k:], []byte(": "))
			}
			out = insert(out, at+2, []byte(expr+" & "))
		}
	}
	if len(out) > maxSize {
		out = out[:maxSize]
	}
	return out, kind
}

// c02Labels: identifiers that are followed by ':' at the beginning of a line (cheap label scan)
func c02Labels(src []byte) []string {
	var out []string
	for _, line := range bytes.Split(src, []byte("\n")) {
		t := bytes.TrimSpace(line)
		i := 0
		for i < len(t) && (t[i] == '_' || t[i] == '#' || t[i] >= 'a' && t[i] <= 'z' || t[i] >= 'A' && t[i] <= 'Z' || i > 0 && t[i] >= '0' && t[i] <= '9') {
			i++
		}
		if i > 0 && i < len(t) && t[i] == ':' {
			out = append(out, string(t[:i]))
		}
		if len(out) > 40 {
			break
		}
	}
	return out
}

// ---- (b) generated programs -------------------------------------------------------

type c02G struct {
	r     *Rng
	names []string // labels in use (references pick from these: cycles arise naturally)
	depth int
	feat  map[string]bool
}

var c02Names = []string{"a", "b", "c", "d", "e", "x", "y", "#D", "#E", "_h", "_#H", "\"#D\"", "\"_h\"", "\"a b\"", "\"#E\"", "\"_#H\""}

func (g *c02G) name() string { return Pick(g.r, g.names) }

// ref returns a reference expression to some label (possibly with a selector path)
func (g *c02G) ref() string {
	n := g.name()
	if strings.HasPrefix(n, "\"") {
		// quoted labels cannot be referenced as identifiers at top level: use a sibling
		n = Pick(g.r, []string{"a", "b", "x", "#D"})
	}
	switch g.r.Intn(6) {
	case 0:
		m := g.name()
		if strings.HasPrefix(m, "\"") {
			return n + "[" + m + "]"
		}
		return n + "." + m
	case 1:
		return n + "[" + fmt.Sprint(g.r.Intn(3)) + "]"
	default:
		return n
	}
}

func (g *c02G) scalar() string {
	return Pick(g.r, []string{"1", "2", "0", "-1", "3.5", "\"s\"", "\"t\"", "true", "false", "null", "int", "string", "number", "_", "_|_",
		">0", "<10", ">=1", "<=2", "!=2", "=~\"^a\"", "!~\"b\"", "bool", "float", "bytes", "'x'", "1e3", "100000000000000000000", ">\"a\"", "!=null", "[]", "{}"})
}

func (g *c02G) expr() string {
	g.depth++
	defer func() { g.depth-- }()
	r := g.r
	if g.depth > 4 {
		if r.Chance(1, 2) {
			return g.scalar()
		}
		return g.ref()
	}
	switch k := r.Intn(28); {
	case k < 5:
		return g.scalar()
	case k < 10:
		g.feat["ref"] = true
		return g.ref()
	case k < 12:
		return g.expr() + " & " + g.expr()
	case k < 14:
		g.feat["disj"] = true
		if r.Chance(1, 2) {
			return "*" + g.expr() + " | " + g.expr()
		}
		return g.expr() + " | " + g.expr()
	case k < 16:
		return g.strct()
	case k == 16:
		g.feat["list"] = true
		n := r.Intn(4)
		var el []string
		for i := 0; i < n; i++ {
			el = append(el, g.expr())
		}
		if r.Chance(1, 4) {
			el = append(el, "..."+Pick(r, []string{"", "int", g.expr()}))
		}
		return "[" + strings.Join(el, ", ") + "]"
	case k == 17:
		g.feat["arith"] = true
		return "(" + g.expr() + Pick(r, []string{" + ", " - ", " * ", " / ", " div ", " mod ", " quo ", " rem ", " == ", " < ", " && ", " || ", " =~ ", " != "}) + g.expr() + ")"
	case k == 18:
		g.feat["div0"] = true
		return Pick(r, []string{"1 / 0", "1 div 0", "1 mod 0", "1.0 / 0.0", "div(1, 0)", "mod(5, 0)", "quo(1, 0)", "rem(1, 0)", g.ref() + " div (" + g.ref() + " - " + g.ref() + ")"})
	case k == 19:
		g.feat["builtin"] = true
		switch r.Intn(6) {
		case 0:
			return "close(" + g.strct() + ")"
		case 1:
			return "and([" + g.expr() + ", " + g.expr() + "])"
		case 2:
			return "or([" + g.expr() + ", " + g.expr() + "])"
		case 3:
			return "len(" + g.expr() + ")"
		case 4:
			return "and(" + g.ref() + ")"
		default:
			return "or(" + g.ref() + ")"
		}
	case k == 20:
		g.feat["comprehension"] = true
		src := g.ref()
		if r.Chance(1, 3) {
			src = "[" + g.expr() + ", " + g.expr() + "]"
		}
		switch r.Intn(4) {
		case 0:
			return "{for k, v in " + src + " {\"\\(k)\": v}}"
		case 1:
			return "[for v in " + src + " {v}]"
		case 2:
			return "{if " + g.expr() + " {" + g.field() + "}}"
		default:
			return "{for k, v in " + src + " if " + g.expr() + " {(k): " + g.expr() + "}}"
		}
	case k == 21:
		g.feat["interp"] = true
		return "\"x\\(" + g.expr() + ")y\""
	case k == 22:
		g.feat["embed"] = true
		return "{" + g.ref() + ", " + g.field() + "}"
	case k == 23:
		g.feat["let"] = true
		return "{let L = " + g.expr() + ", " + Pick(r, []string{"p", "a", "x"}) + ": L}"
	case k == 24:
		g.feat["explosion"] = true
		n := 2 + r.Intn(9)
		return strings.Repeat("("+Pick(r, []string{"1|2", "*1|2", "1|2|3", "{a:1}|{b:2}", "{a:1|2}"})+") & ", n) + "_"
	case k == 25:
		return "(" + g.expr() + ")." + g.name0()
	case k == 26:
		return "-" + g.expr()
	default:
		return "!" + g.expr()
	}
}

func (g *c02G) name0() string {
	n := g.name()
	if strings.HasPrefix(n, "\"") {
		return "a"
	}
	return n
}

func (g *c02G) field() string {
	r := g.r
	l := g.name()
	switch r.Intn(14) {
	case 0:
		return l + "?: " + g.expr()
	case 1:
		return l + "!: " + g.expr()
	case 2:
		g.feat["pattern"] = true
		return "[" + Pick(r, []string{"string", "=~\"^a\"", "!=\"a\"", "\"a\" | \"b\"", g.ref()}) + "]: " + g.expr()
	case 3:
		g.feat["dynamic"] = true
		return "(" + Pick(r, []string{"\"a\"", "\"#D\"", g.ref(), "\"x\\(" + g.ref() + ")\""}) + "): " + g.expr()
	case 4:
		return "..."
	case 5:
		// nested path a: b: c: expr, possibly closing a structural cycle
		return l + ": " + g.name() + ": " + g.expr()
	case 6:
		g.feat["embed"] = true
		return g.ref()
	default:
		return l + ": " + g.expr()
	}
}

func (g *c02G) strct() string {
	n := g.r.Intn(4)
	var fs []string
	for i := 0; i < n; i++ {
		fs = append(fs, g.field())
	}
	return "{" + strings.Join(fs, ", ") + "}"
}

// c02Idioms are hand-written shapes around the cycle detector and other boundaries the
// property's quantifier names; `%s` slots are filled with generated expressions.
var c02Idioms = []string{
	"a: b: a\n",
	"a: {b: a}\nc: a.b.b.b\n",
	"a: b\nb: a\n",
	"a: b + 1\nb: a - 1\n",
	"a: b & {x: 1}\nb: a & {y: 2}\n",
	"#L: {v: int, next?: #L}\nl: #L & {v: 1, next: {v: 2, next: {v: 3}}}\n",
	"#L: {next: #L}\nl: #L\n",
	"#L: {v: %s, next: #L | null}\nl: #L\n",
	"#T: {l?: #T, r?: #T, v: %s}\nt: #T & {l: {l: {v: 1}, v: 2}, v: 3}\n",
	"x: [for v in x {v}]\n",
	"x: {for k, v in x {\"\\(k)a\": v}}\nx: a: 1\n",
	"x: {for k, v in y {(k): v}}\ny: {for k, v in x {(k): v}}\ny: a: %s\n",
	"x: [1, 2, x[0]]\ny: x[%s]\n",
	"x: [...x]\n",
	"x: [x]\n",
	"a: close({b: %s})\na: c: 1\n",
	"a: and([%s, %s])\nb: or([%s, %s])\nc: or([])\nd: and([])\n",
	"a: len(a)\n",
	"a: len(b)\nb: [a]\n",
	"a: 1 div 0\nb: 1 mod 0\nc: 1 / 0\nd: %s div (1 - 1)\n",
	"a: *1 | a\n",
	"a: *a | 1\n",
	"a: a | b\nb: a & b\n",
	"a: {b: c: a.b} & {b: c: d: 1}\n",
	"#D: {a: #D.b, b: #D.a}\nx: #D\n",
	"x: {\"#D\": 1} & {#D: 2}\n",
	"x: {\"_h\": 1, a: 2} & {_h: 3, \"#E\": %s} & {#E: 4}\n",
	"x: {#a: 1} & {\"#a\": %s}\ny: x & {b: 1}\n",
	"a: {b: a.c, c: a.b}\n",
	"a: b.c\nb: {c: a}\n",
	"p: [string]: p\np: x: y: 1\n",
	"p: [string]: {n: p}\np: x: {}\n",
	"a: {x: %s} | {y: %s}\nb: a & {x: 1}\nc: b.x\n",
	"a?: %s\nb: a\n",
	"a!: %s\nb: a & 1\n",
	"a: >0 & <%s\nb: a & 5\n",
	"a: {b: 1, if a.b > 0 {c: %s}}\n",
	"a: {if a.c > 0 {c: 1}}\n",
	"a: [if len(a) > 0 {1}]\n",
	"a: \"\\(b)\"\nb: \"\\(a)\"\n",
	"a: [for i, v in [1, 2, 3] if v > %s {i}]\n",
	"let X = {a: X}\nb: X\n",
	"let X = Y\nlet Y = X\nb: X\n",
	"a: {b: _|_}\nc: a.b | 1\n",
	"a: _|_ & 1\n",
	"a: 1 & 2\nb: a + 1\nc: [a, b]\n",
	"a: {b: 1} & {b: 2} & {c: %s}\n",
	"a: #D & {z: 1}\n#D: {y: %s}\n",
	"#D: {#E, x: 1}\n#E: {#D, y: 2}\nd: #D\n",
	"#D: {a: int} | {b: #D}\nd: #D & {b: b: b: a: 1}\n",
	"a: (a & {b: 1}).b\n",
	"a: {b: a.b.c}\n",
	"x: y: x.y.z\n",
	"a: [a[0]]\n",
	"a: [1, a[0] + 1]\nb: a[1]\n",
	"a: b[0]\nb: [a]\n",
	"a: {(b): 1}\nb: \"\\(len(a))\"\n",
	"a: {for k, _ in a {\"x\\(k)\": 1}, s: 1}\n",
	"a: or([for x in [1, 2, 3] {x}]) & %s\n",
	"a: and([for x in [int, >1, <%s] {x}])\n",
	"a: close({}) & {b: 1}\n",
	"a: close({[=~\"^x\"]: int}) & {xa: 1, y: %s}\n",
	"a: {b: 1, ...} & close({b: int})\n",
	"#A: {b: int}\na: #A & {c: %s}\n",
	"a: >1 & {b!: int}\n",
	"a: {>1, b!: int}\n",
	"a: {b!: int, >1}\nc: a & 2\n",
	"a: [>1, ...] & {b!: 1}\n",
	"a: *{b!: 1} | >1\n",
	// reported by the builders of C01 and C13 (see notes/C01.md, notes/C13.md)
	"x: {if false {b: 1}} & >0\n",
	"x: (1 | 2) & matchN(2, [error(\"e\")])\n",
}

const c02KnownTail = 7

// c02Program generates one program.
func c02Program(r *Rng) (string, map[string]bool) {
	g := &c02G{r: r, feat: map[string]bool{}}
	k := 3 + r.Intn(6)
	for i := 0; i < k; i++ {
		g.names = append(g.names, Pick(r, c02Names))
	}
	var b strings.Builder
	if r.Chance(1, 3) {
		// the last c02KnownTail idioms (a known runaway recursion, ~5 s of CPU each) are run once
		// per check as part of the fixed prelude and are not drawn again at random
		idiom := Pick(r, c02Idioms[:len(c02Idioms)-c02KnownTail])
		g.feat["idiom"] = true
		for strings.Contains(idiom, "%s") {
			idiom = strings.Replace(idiom, "%s", g.expr(), 1)
		}
		b.WriteString(idiom)
		if r.Chance(1, 2) {
			return b.String(), g.feat
		}
	}
	n := 1 + r.Intn(7)
	for i := 0; i < n; i++ {
		f := g.field()
		if strings.HasPrefix(f, "...") || strings.HasPrefix(f, "(") && false {
			continue
		}
		b.WriteString(f)
		b.WriteString("\n")
	}
	return b.String(), g.feat
}
