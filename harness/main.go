// Command verifharness drives the real cue-lang/cue implementation for the checks in
// /verif.  It is compiled INTO the working tree's module through `go build -overlay`
// (virtual directory /repo/internal/verifharness), so it can import internal packages
// and always exercises the current source.
//
// Usage: verifharness <property> -seed N -tier quick|thorough -out DIR [-replay FILE]
//
// Output files in DIR:
//
//	ops.txt     one model-protocol line per case: "<class> <PROP> <op> <args...>"
//	            class O = property-level observable (a disagreement with the proved
//	            model is itself a failing input), I = internal correspondence.
//	impl.txt    the implementation's canonical answer for the same line number.
//	direct.jsonl property predicates evaluated directly on the implementation
//	            (round trips, laws); {"ok":false,...} entries are failing inputs.
//	stats.json  distribution of what was generated.
package main

import (
	"bufio"
	"encoding/hex"
	"encoding/json"
	"flag"
	"fmt"
	"hash/fnv"
	"os"
	"path/filepath"
	"sort"
	"sync"
)

type Cfg struct {
	Prop   string
	Seed   uint64
	Tier   string
	Out    string
	Replay string
	Focus  bool

	mu       sync.Mutex
	ops      *bufio.Writer
	impl     *bufio.Writer
	direct   *bufio.Writer
	nOps     int
	nDirect  int
	nFail    int
	counts   map[string]int
	distinct map[uint64]bool
	nontriv  int
	samples  []string
	files    []*os.File
}

func (c *Cfg) Thorough() bool { return c.Tier == "thorough" }

// Pick returns q for the quick tier and t for the thorough tier.
func (c *Cfg) Pick(q, t int) int {
	if c.Thorough() {
		return t
	}
	return q
}

// Op records one protocol case together with the implementation's answer.
func (c *Cfg) Op(class string, line string, implAnswer string) {
	c.mu.Lock()
	defer c.mu.Unlock()
	fmt.Fprintf(c.ops, "%s %s %s\n", class, c.Prop, line)
	fmt.Fprintf(c.impl, "%s\n", oneLine(implAnswer))
	c.nOps++
}

// OpTag is Op with a known-finding class tag: when the implementation's answer for this
// case disagrees with the model, the failing input is reported under that class.
func (c *Cfg) OpTag(class, tag, line, implAnswer string) {
	if tag != "" {
		class = class + ":" + tag
	}
	c.Op(class, line, implAnswer)
}

// Trace counts one implementation trace/history validated against the model.
func (c *Cfg) Trace() { c.Count("traces") }

// Direct records the verdict of a property predicate evaluated on the implementation
// alone. class names the failure class (used for known findings).
func (c *Cfg) Direct(ok bool, class string, what string, replay any) {
	c.mu.Lock()
	defer c.mu.Unlock()
	c.nDirect++
	if ok {
		return
	}
	c.nFail++
	b, _ := json.Marshal(map[string]any{"ok": false, "class": class, "what": what, "replay": replay})
	c.direct.Write(b)
	c.direct.WriteByte('\n')
}

func (c *Cfg) Count(key string) {
	c.mu.Lock()
	c.counts[key]++
	c.mu.Unlock()
}

// Case registers a canonical case text for distinct / non-trivial accounting.
func (c *Cfg) Case(canon string, nontrivial bool) {
	h := fnv.New64a()
	h.Write([]byte(canon))
	k := h.Sum64()
	c.mu.Lock()
	defer c.mu.Unlock()
	if c.distinct[k] {
		return
	}
	c.distinct[k] = true
	if nontrivial {
		c.nontriv++
		if len(c.samples) < 8 || (len(c.samples) < 24 && c.nontriv%997 == 0) {
			s := canon
			if len(s) > 300 {
				s = s[:300] + "…"
			}
			c.samples = append(c.samples, s)
		}
	}
}

func oneLine(s string) string {
	b := []byte(s)
	for i, ch := range b {
		if ch == '\n' || ch == '\r' {
			b[i] = ' '
		}
	}
	if len(b) == 0 {
		return "-"
	}
	return string(b)
}

// H hex-encodes a byte string for the protocol ("-" when empty).
func H(s string) string {
	if s == "" {
		return "-"
	}
	return hex.EncodeToString([]byte(s))
}

func (c *Cfg) open(name string) *bufio.Writer {
	f, err := os.Create(filepath.Join(c.Out, name))
	if err != nil {
		fmt.Fprintln(os.Stderr, err)
		os.Exit(2)
	}
	c.files = append(c.files, f)
	return bufio.NewWriterSize(f, 1<<20)
}

func (c *Cfg) finish() {
	c.ops.Flush()
	c.impl.Flush()
	c.direct.Flush()
	keys := make([]string, 0, len(c.counts))
	for k := range c.counts {
		keys = append(keys, k)
	}
	sort.Strings(keys)
	dist := map[string]int{}
	for _, k := range keys {
		dist[k] = c.counts[k]
	}
	st := map[string]any{
		"ops": c.nOps, "direct": c.nDirect, "direct_failures": c.nFail,
		"distinct": len(c.distinct), "distinct_nontrivial": c.nontriv,
		"distribution": dist, "samples": c.samples,
	}
	b, _ := json.MarshalIndent(st, "", " ")
	os.WriteFile(filepath.Join(c.Out, "stats.json"), b, 0o666)
	for _, f := range c.files {
		f.Close()
	}
}

var props = map[string]func(*Cfg){}

func main() {
	if len(os.Args) < 2 {
		fmt.Fprintln(os.Stderr, "usage: verifharness <property> [flags]")
		os.Exit(2)
	}
	prop := os.Args[1]
	fs := flag.NewFlagSet(prop, flag.ExitOnError)
	c := &Cfg{Prop: prop, counts: map[string]int{}, distinct: map[uint64]bool{}}
	fs.Uint64Var(&c.Seed, "seed", 1, "PRNG seed")
	fs.StringVar(&c.Tier, "tier", "quick", "quick|thorough")
	fs.StringVar(&c.Out, "out", ".", "output directory")
	fs.StringVar(&c.Replay, "replay", "", "replay file")
	fs.BoolVar(&c.Focus, "focus", false, "failing-input search mode (observable-level cases only, denser)")
	fs.Parse(os.Args[2:])
	f, ok := props[prop]
	if !ok {
		fmt.Fprintln(os.Stderr, "unknown property", prop)
		os.Exit(2)
	}
	os.MkdirAll(c.Out, 0o777)
	c.ops = c.open("ops.txt")
	c.impl = c.open("impl.txt")
	c.direct = c.open("direct.jsonl")
	f(c)
	c.finish()
}
