package main

func c17Witnesses(c *Cfg) {}

func c17Modfile(c *Cfg, r *Rng) {}
