package main

// C17, module-file part: "Formatting a parsed module file and parsing it again yields the
// same module file, and unknown or malformed fields are rejected rather than dropped."
//
// (a) generated modfile.File values -> Format -> Parse -> field-by-field comparison, and
//     Format(Parse(Format f)) byte-equal to Format f                      (direct checks)
// (b) generated data trees (valid ones and mutations) rendered as CUE text -> Parse;
//     the accept/reject verdict and the decoded File go to the Lean model
//     (CueVerif.Modfile.decode) as the op
//         mfdecode <tree> <current> <okmain> <okdeps>
//     and for every ACCEPTED text no field of the input tree may be missing from
//     Format(Parse(text)) re-read as data ("rejected rather than dropped").
//
// Tree encoding (one word, comma separated prefix notation):
//   s<hex> string (s- empty) | t | f | z (null) | n<int> | o<k> k*(<hex key>,tree) | l<k> k*tree

import (
	"bytes"
	"encoding/json"
	"fmt"
	"sort"
	"strconv"
	"strings"

	"cuelang.org/go/cue/cuecontext"
	"cuelang.org/go/cue/literal"
	"cuelang.org/go/internal/cueversion"
	"cuelang.org/go/internal/mod/semver"
	"cuelang.org/go/mod/modfile"
	"cuelang.org/go/mod/module"
)

type c17mfVal struct {
	kind  byte // 's' 'b' 'z' 'n' 'o' 'l'
	s     string
	b     bool
	n     int64
	keys  []string
	vals  []*c17mfVal
	elems []*c17mfVal
}

func c17mfS(s string) *c17mfVal { return &c17mfVal{kind: 's', s: s} }
func c17mfB(b bool) *c17mfVal   { return &c17mfVal{kind: 'b', b: b} }
func c17mfN(n int64) *c17mfVal  { return &c17mfVal{kind: 'n', n: n} }
func c17mfZ() *c17mfVal         { return &c17mfVal{kind: 'z'} }
func c17mfO() *c17mfVal         { return &c17mfVal{kind: 'o'} }

func (v *c17mfVal) set(k string, x *c17mfVal) *c17mfVal {
	for i, kk := range v.keys {
		if kk == k {
			v.vals[i] = x
			return v
		}
	}
	v.keys = append(v.keys, k)
	v.vals = append(v.vals, x)
	return v
}

func (v *c17mfVal) get(k string) *c17mfVal {
	if v == nil || v.kind != 'o' {
		return nil
	}
	for i, kk := range v.keys {
		if kk == k {
			return v.vals[i]
		}
	}
	return nil
}

func (v *c17mfVal) del(k string) {
	for i, kk := range v.keys {
		if kk == k {
			v.keys = append(v.keys[:i:i], v.keys[i+1:]...)
			v.vals = append(v.vals[:i:i], v.vals[i+1:]...)
			return
		}
	}
}

func (v *c17mfVal) sortKeys() {
	if v.kind != 'o' {
		return
	}
	idx := make([]int, len(v.keys))
	for i := range idx {
		idx[i] = i
	}
	sort.Slice(idx, func(a, b int) bool { return v.keys[idx[a]] < v.keys[idx[b]] })
	ks := make([]string, len(idx))
	vs := make([]*c17mfVal, len(idx))
	for i, j := range idx {
		ks[i], vs[i] = v.keys[j], v.vals[j]
	}
	v.keys, v.vals = ks, vs
}

func (v *c17mfVal) enc(sb *strings.Builder) {
	switch v.kind {
	case 's':
		sb.WriteString("s" + H(v.s))
	case 'b':
		if v.b {
			sb.WriteString("t")
		} else {
			sb.WriteString("f")
		}
	case 'z':
		sb.WriteString("z")
	case 'n':
		sb.WriteString("n" + strconv.FormatInt(v.n, 10))
	case 'o':
		sb.WriteString("o" + strconv.Itoa(len(v.keys)))
		for i, k := range v.keys {
			sb.WriteString("," + H(k) + ",")
			v.vals[i].enc(sb)
		}
	case 'l':
		sb.WriteString("l" + strconv.Itoa(len(v.elems)))
		for _, e := range v.elems {
			sb.WriteString(",")
			e.enc(sb)
		}
	default:
		sb.WriteString("x")
	}
}

func c17mfEnc(v *c17mfVal) string {
	var sb strings.Builder
	v.enc(&sb)
	return sb.String()
}

func (v *c17mfVal) cue(sb *strings.Builder) {
	switch v.kind {
	case 's':
		sb.WriteString(literal.String.Quote(v.s))
	case 'b':
		sb.WriteString(strconv.FormatBool(v.b))
	case 'z':
		sb.WriteString("null")
	case 'n':
		sb.WriteString(strconv.FormatInt(v.n, 10))
	case 'o':
		sb.WriteString("{")
		for i, k := range v.keys {
			if i > 0 {
				sb.WriteString(", ")
			}
			sb.WriteString(literal.String.Quote(k) + ": ")
			v.vals[i].cue(sb)
		}
		sb.WriteString("}")
	case 'l':
		sb.WriteString("[")
		for i, e := range v.elems {
			if i > 0 {
				sb.WriteString(", ")
			}
			e.cue(sb)
		}
		sb.WriteString("]")
	}
}

// c17mfText renders the top-level struct as the body of a module.cue file.
func c17mfText(top *c17mfVal) string {
	var sb strings.Builder
	for i, k := range top.keys {
		sb.WriteString(literal.String.Quote(k) + ": ")
		top.vals[i].cue(&sb)
		sb.WriteString("\n")
	}
	return sb.String()
}

// c17mfFromAny converts decoded CUE data (as produced by Value.Decode into `any`) to a
// tree with sorted struct keys.
func c17mfFromAny(x any) *c17mfVal {
	switch x := x.(type) {
	case nil:
		return c17mfZ()
	case bool:
		return c17mfB(x)
	case string:
		return c17mfS(x)
	case int:
		return c17mfN(int64(x))
	case int64:
		return c17mfN(x)
	case []any:
		v := &c17mfVal{kind: 'l'}
		for _, e := range x {
			v.elems = append(v.elems, c17mfFromAny(e))
		}
		return v
	case map[string]any:
		v := c17mfO()
		for k, e := range x {
			v.set(k, c17mfFromAny(e))
		}
		v.sortKeys()
		return v
	}
	return &c17mfVal{kind: 'x', s: fmt.Sprintf("%T", x)}
}

// ---- pools ----

var c17mfBases = []string{"foo.com", "bar.com", "example.com/a/b", "x.test/m", "a-b.example/q_1", "baz.org/x"}

func c17mfLangPool() []string {
	return []string{
		"v0.8.0-alpha.0", "v0.8.0", "v0.8.2", "v0.9.0-alpha.0", "v0.9.0-alpha.3", "v0.9.0", "v0.9.2",
		"v0.10.0", "v0.12.0-rc.1", "v0.16.9", "v0.17.0-alpha.1", "v0.17.0", "v0.17.1",
		cueversion.LanguageVersion(),
	}
}

func c17mfAtLeast(lv, min string) bool { return semver.Compare(lv, min) >= 0 }

func c17mfVersion(r *Rng, major int) string {
	v := fmt.Sprintf("v%d.%d.%d", major, r.Intn(4), r.Intn(12))
	if r.Chance(1, 5) {
		v += Pick(r, []string{"-alpha.1", "-rc.2", "-0.x", "-beta"})
	}
	return v
}

func c17mfScalar(r *Rng) *c17mfVal {
	switch r.Intn(5) {
	case 0:
		return c17mfN(int64(r.Intn(2000)) - 500)
	case 1:
		return c17mfS(Pick(r, []string{"", "x", "hello world", "a\"b\\c", "tab\there", "line\nbreak", "v1.2.3", "été"}))
	case 2:
		return c17mfB(r.Bool())
	case 3:
		return c17mfZ()
	}
	return c17mfN(int64(r.Intn(10)))
}

// c17mfData generates nested data with sorted struct keys.
func c17mfData(r *Rng, depth int) *c17mfVal {
	if depth <= 0 || r.Chance(1, 2) {
		return c17mfScalar(r)
	}
	if r.Bool() {
		v := &c17mfVal{kind: 'l'}
		for i, n := 0, r.Intn(4); i < n; i++ {
			v.elems = append(v.elems, c17mfData(r, depth-1))
		}
		return v
	}
	v := c17mfO()
	for i, n := 0, r.Intn(4); i < n; i++ {
		v.set(Pick(r, []string{"a", "b", "key", "x-y", "module", "v", "0", "with space"}), c17mfData(r, depth-1))
	}
	v.sortKeys()
	return v
}

func c17mfToAny(v *c17mfVal) any {
	switch v.kind {
	case 's':
		return v.s
	case 'b':
		return v.b
	case 'n':
		return v.n
	case 'l':
		out := []any{}
		for _, e := range v.elems {
			out = append(out, c17mfToAny(e))
		}
		return out
	case 'o':
		out := map[string]any{}
		for i, k := range v.keys {
			out[k] = c17mfToAny(v.vals[i])
		}
		return out
	}
	return nil
}

// c17mfCustomTree: custom: {ns: {key: data}} (nil = absent)
func c17mfCustomTree(r *Rng) *c17mfVal {
	switch r.Intn(5) {
	case 0, 1:
		return nil
	case 2:
		return c17mfO()
	}
	c := c17mfO()
	for i, n := 0, 1+r.Intn(3); i < n; i++ {
		ns := c17mfO()
		for j, m := 0, r.Intn(4); j < m; j++ {
			ns.set(Pick(r, []string{"a", "b", "opts", "x-y", "deps", "q r"}), c17mfData(r, 3))
		}
		ns.sortKeys()
		c.set(Pick(r, []string{"legacy", "tool.example", "foo.com", "other.org/tool@v1", "no-dot"}), ns)
	}
	c.sortKeys()
	return c
}

type c17mfDepSpec struct {
	key, v, replace string
	dflt            bool
}

// c17mfDeps generates valid strict dependencies: several majors of one base, at most one
// default per base, never a default for the main module's base path.
func c17mfDeps(r *Rng, mainBase string, lv string) []c17mfDepSpec {
	var out []c17mfDepSpec
	n := r.Intn(6)
	if r.Chance(1, 4) {
		n = 0
	}
	used := map[string]bool{}
	hasDefault := map[string]bool{mainBase: true}
	for i := 0; i < n; i++ {
		base := Pick(r, c17mfBases)
		major := r.Intn(4)
		key := fmt.Sprintf("%s@v%d", base, major)
		if used[key] {
			continue
		}
		used[key] = true
		d := c17mfDepSpec{key: key, v: c17mfVersion(r, major)}
		if !hasDefault[base] && r.Chance(1, 3) {
			d.dflt = true
			hasDefault[base] = true
		}
		if c17mfAtLeast(lv, "v0.17.0") && r.Chance(1, 5) {
			d.replace = Pick(r, []string{"./local", "../x/y", "/abs/dir", "other.com/y@v1", "other.com/y@v1.2.3"})
		}
		out = append(out, d)
	}
	return out
}

func c17mfModule(r *Rng) (string, string) {
	base := Pick(r, c17mfBases)
	switch r.Intn(5) {
	case 0:
		return base, base
	}
	return fmt.Sprintf("%s@v%d", base, r.Intn(4)), base
}

// ---- (a) File round trip ----

func c17mfFileJSON(f *modfile.File) string {
	type dep struct {
		K, V, R string
		D       bool
	}
	var deps []dep
	for k, d := range f.Deps {
		if d == nil {
			deps = append(deps, dep{K: k, V: "<nil>"})
			continue
		}
		deps = append(deps, dep{k, d.Version, d.ReplaceWith, d.Default})
	}
	sort.Slice(deps, func(i, j int) bool { return deps[i].K < deps[j].K })
	lang, src := "<nil>", "<nil>"
	if f.Language != nil {
		lang = f.Language.Version
	}
	if f.Source != nil {
		src = f.Source.Kind
	}
	cust, err := json.Marshal(f.Custom)
	if err != nil {
		cust = []byte("marshal-error: " + err.Error())
	}
	b, _ := json.Marshal(map[string]any{"module": f.Module, "language": lang, "source": src, "deps": deps, "custom": string(cust)})
	return string(b)
}

func c17mfGenFile(r *Rng) *modfile.File {
	mod, base := c17mfModule(r)
	lv := Pick(r, c17mfLangPool())
	f := &modfile.File{Module: mod, Language: &modfile.Language{Version: lv}}
	if c17mfAtLeast(lv, "v0.9.0-alpha.0") {
		switch r.Intn(3) {
		case 0:
			f.Source = &modfile.Source{Kind: "self"}
		case 1:
			f.Source = &modfile.Source{Kind: "git"}
		}
	}
	deps := c17mfDeps(r, base, lv)
	if len(deps) > 0 || r.Bool() {
		f.Deps = map[string]*modfile.Dep{}
	}
	for _, d := range deps {
		f.Deps[d.key] = &modfile.Dep{Version: d.v, Default: d.dflt, ReplaceWith: d.replace}
	}
	if ct := c17mfCustomTree(r); ct != nil {
		f.Custom = map[string]map[string]any{}
		for i, ns := range ct.keys {
			f.Custom[ns] = c17mfToAny(ct.vals[i]).(map[string]any)
		}
	}
	return f
}

func c17mfParse(text []byte) (f *modfile.File, err error) {
	defer func() {
		if e := recover(); e != nil {
			f, err = nil, fmt.Errorf("PANIC: %v", e)
		}
	}()
	return modfile.Parse(text, "module.cue")
}

func c17mfFormat(f *modfile.File) (b []byte, err error) {
	defer func() {
		if e := recover(); e != nil {
			b, err = nil, fmt.Errorf("PANIC: %v", e)
		}
	}()
	return modfile.Format(f)
}

func c17mfRoundTrip(c *Cfg, r *Rng) {
	f := c17mfGenFile(r)
	want := c17mfFileJSON(f)
	c.Count(fmt.Sprintf("modfile/file/deps=%d", min(len(f.Deps), 4)))
	if f.Source != nil {
		c.Count("modfile/file/source=" + f.Source.Kind)
	}
	if f.Custom != nil {
		c.Count(fmt.Sprintf("modfile/file/custom-namespaces=%d", len(f.Custom)))
	}
	if !strings.Contains(f.Module, "@") {
		c.Count("modfile/file/module-without-major")
	}
	nDefault, nReplace := 0, 0
	for _, d := range f.Deps {
		if d.Default {
			nDefault++
		}
		if d.ReplaceWith != "" {
			nReplace++
		}
	}
	if nDefault > 0 {
		c.Count("modfile/file/with-default")
	}
	if nReplace > 0 {
		c.Count("modfile/file/with-replaceWith")
	}
	c.Case("file "+want, len(f.Deps) > 0 || f.Custom != nil || f.Source != nil)
	text, err := c17mfFormat(f)
	if err != nil {
		c.Direct(false, "modfile-format-error", "Format fails on a well-formed File: "+err.Error(), want)
		return
	}
	g, err := c17mfParse(text)
	if err != nil {
		c.Direct(false, "modfile-roundtrip", "Parse(Format(f)) fails: "+err.Error(), map[string]any{"file": want, "text": string(text)})
		return
	}
	got := c17mfFileJSON(g)
	c.Direct(got == want, "modfile-roundtrip", "Parse(Format(f)) differs from f: got "+got, map[string]any{"file": want, "text": string(text)})
	text2, err := c17mfFormat(g)
	c.Direct(err == nil && bytes.Equal(text, text2), "modfile-format-stable", "Format(Parse(Format f)) != Format f", map[string]any{"file": want, "text": string(text), "text2": string(text2)})
}

// ---- (b) trees ----

func c17mfValidTree(r *Rng) (top *c17mfVal, lv string) {
	mod, base := c17mfModule(r)
	lv = Pick(r, c17mfLangPool())
	top = c17mfO()
	top.set("module", c17mfS(mod))
	top.set("language", c17mfO().set("version", c17mfS(lv)))
	if c17mfAtLeast(lv, "v0.9.0-alpha.0") && r.Bool() {
		top.set("source", c17mfO().set("kind", c17mfS(Pick(r, []string{"self", "git"}))))
	}
	deps := c17mfDeps(r, base, lv)
	if len(deps) > 0 || r.Chance(1, 6) {
		dv := c17mfO()
		for _, d := range deps {
			e := c17mfO().set("v", c17mfS(d.v))
			if d.dflt {
				e.set("default", c17mfB(true))
			} else if r.Chance(1, 6) {
				e.set("default", c17mfB(false))
			}
			if d.replace != "" {
				e.set("replaceWith", c17mfS(d.replace))
			} else if c17mfAtLeast(lv, "v0.17.0") && r.Chance(1, 10) {
				e.set("replaceWith", c17mfS(""))
			}
			if r.Bool() {
				Shuffle(r, e.keys) // keys only: values follow below
				vals := make([]*c17mfVal, len(e.keys))
				for i, k := range e.keys {
					switch k {
					case "v":
						vals[i] = c17mfS(d.v)
					case "default":
						vals[i] = c17mfB(d.dflt)
					case "replaceWith":
						vals[i] = c17mfS(d.replace)
					}
				}
				e.vals = vals
			}
			dv.set(d.key, e)
		}
		top.set("deps", dv)
	}
	if ct := c17mfCustomTree(r); ct != nil {
		top.set("custom", ct)
	}
	if r.Bool() {
		// permute the top-level fields
		idx := make([]int, len(top.keys))
		for i := range idx {
			idx[i] = i
		}
		Shuffle(r, idx)
		ks := make([]string, len(idx))
		vs := make([]*c17mfVal, len(idx))
		for i, j := range idx {
			ks[i], vs[i] = top.keys[j], top.vals[j]
		}
		top.keys, top.vals = ks, vs
	}
	return top, lv
}

func c17mfWrong(r *Rng, not byte) *c17mfVal {
	for {
		var v *c17mfVal
		switch r.Intn(6) {
		case 0:
			v = c17mfN(int64(r.Intn(5)))
		case 1:
			v = c17mfS(Pick(r, []string{"x", "yes", "v0.1.0", "self"}))
		case 2:
			v = c17mfB(r.Bool())
		case 3:
			v = c17mfZ()
		case 4:
			v = c17mfO()
			if r.Bool() {
				v.set("x", c17mfN(1))
			}
		case 5:
			v = &c17mfVal{kind: 'l', elems: []*c17mfVal{c17mfS("a")}}
		}
		if v.kind != not {
			return v
		}
	}
}

// c17mfAnyDep returns a random dependency entry of the tree (nil if none).
func c17mfAnyDep(r *Rng, top *c17mfVal) *c17mfVal {
	d := top.get("deps")
	if d == nil || d.kind != 'o' || len(d.vals) == 0 {
		return nil
	}
	e := d.vals[r.Intn(len(d.vals))]
	if e.kind != 'o' {
		return nil
	}
	return e
}

func c17mfEnsureDep(r *Rng, top *c17mfVal) *c17mfVal {
	if e := c17mfAnyDep(r, top); e != nil {
		return e
	}
	e := c17mfO().set("v", c17mfS("v0.3.1"))
	top.set("deps", c17mfO().set("dep.example/z@v0", e))
	return e
}

var c17mfUnknownNames = []string{"foo", "descriptio", "Module", "dependencies", "version", "v", "kind", "default", "replace", "Default", "", "x y", "module", "deps", "source", "custom", "language", "description", "replaceWith"}

// c17mfUnknown picks a field name that is not among the known ones of the struct.
func c17mfUnknown(r *Rng, known ...string) string {
	for {
		k := Pick(r, c17mfUnknownNames)
		ok := true
		for _, n := range known {
			if n == k {
				ok = false
			}
		}
		if ok {
			return k
		}
	}
}

// c17mfMutate applies one mutation and returns its name.
func c17mfMutate(r *Rng, top *c17mfVal, lv string) string {
	switch r.Intn(22) {
	case 0:
		top.set(c17mfUnknown(r, "module", "language", "source", "description", "deps", "custom"), c17mfWrong(r, 0))
		return "unknown-top"
	case 1:
		if l := top.get("language"); l != nil {
			if l.kind == 'o' {
				l.set(c17mfUnknown(r, "version"), c17mfWrong(r, 0))
			}
		}
		return "unknown-language"
	case 2:
		s := top.get("source")
		if s == nil || s.kind != 'o' {
			s = c17mfO().set("kind", c17mfS("git"))
			top.set("source", s)
		}
		s.set(c17mfUnknown(r, "kind"), c17mfWrong(r, 0))
		return "unknown-source"
	case 3:
		e := c17mfEnsureDep(r, top)
		e.set(c17mfUnknown(r, "v", "default", "replaceWith"), c17mfWrong(r, 0))
		return "unknown-dep"
	case 4:
		top.set("module", c17mfWrong(r, 's'))
		return "wrongtype-module"
	case 5:
		top.set("language", c17mfWrong(r, 'o'))
		return "wrongtype-language"
	case 6:
		top.set("language", c17mfO().set("version", c17mfWrong(r, 's')))
		return "wrongtype-version"
	case 7:
		switch r.Intn(3) {
		case 0:
			top.del("language")
		case 1:
			top.set("language", c17mfO())
		case 2:
			top.set("language", c17mfO().set("version", c17mfS("")))
		}
		return "missing-language-version"
	case 8:
		top.set("source", c17mfWrong(r, 'o'))
		return "wrongtype-source"
	case 9:
		if r.Bool() {
			top.set("source", c17mfO().set("kind", c17mfWrong(r, 's')))
		} else {
			top.set("source", c17mfO().set("kind", c17mfS(Pick(r, []string{"hg", "", "Git", "svn", "self "}))))
		}
		return "bad-source-kind"
	case 10:
		top.set("deps", c17mfWrong(r, 'o'))
		return "wrongtype-deps"
	case 11:
		e := c17mfEnsureDep(r, top)
		switch r.Intn(4) {
		case 0:
			e.set("v", c17mfWrong(r, 's'))
		case 1:
			e.set("default", c17mfWrong(r, 'b'))
		case 2:
			e.set("replaceWith", c17mfWrong(r, 's'))
		case 3:
			e.set("v", c17mfS(""))
		}
		return "wrongtype-dep-field"
	case 12:
		d := top.get("deps")
		if d == nil || d.kind != 'o' {
			d = c17mfO()
			top.set("deps", d)
		}
		d.set("dep.example/w@v1", c17mfWrong(r, 'o'))
		return "wrongtype-dep-entry"
	case 13:
		c17mfEnsureDep(r, top).del("v")
		return "missing-v"
	case 14:
		c17mfEnsureDep(r, top).set("replaceWith", c17mfS(Pick(r, []string{"./local", "other.com/y@v1", ""})))
		return "replaceWith"
	case 15:
		if r.Bool() {
			top.set("custom", c17mfWrong(r, 'o'))
		} else {
			top.set("custom", c17mfO().set("tool.example", c17mfWrong(r, 'o')))
		}
		return "wrongtype-custom"
	case 16:
		if r.Chance(1, 4) {
			top.set("description", c17mfWrong(r, 's'))
			return "wrongtype-description"
		}
		top.set("description", c17mfS(Pick(r, []string{"x", "", "A module that does things."})))
		return "description"
	case 17:
		top.set("language", c17mfO().set("version", c17mfS(Pick(r, []string{
			"v0.9", "v0", "v0.7.0", "v0.7.9", "v0.99.0", "v1.0.0", "0.9.0", "v0.9.0+meta", "v0.09.0", "latest", "v0.8.0-alpha", "v0.8.0-0", "v0.18.1", "v0.17.0-", " v0.9.0",
		}))))
		return "odd-language-version"
	case 18:
		switch r.Intn(3) {
		case 0:
			top.del("module")
		default:
			top.set("module", c17mfS(Pick(r, []string{"", "Foo.com", "foo.com@v1.2", "nodot@v0", "foo.com@", "@v1", "foo.com@v01", "foo.com/@v1", "local", "foo.com@latest", "foo.com@v1@v2"})))
		}
		return "odd-module"
	case 19:
		d := top.get("deps")
		if d == nil || d.kind != 'o' {
			d = c17mfO()
			top.set("deps", d)
		}
		k := Pick(r, []string{"nomajor.example/a", "mis.example/m@v1", "Upper.example@v0", "noncanon.example@v0", "nodot@v0", "local", "twice.example@v0@v1", "build.example@v1"})
		v := "v0.4.0"
		switch k {
		case "noncanon.example@v0":
			v = "v0.4"
		case "build.example@v1":
			v = "v1.0.0+build"
		case "local":
			v = Pick(r, []string{"v0.1.0", ""})
		}
		d.set(k, c17mfO().set("v", c17mfS(v)))
		return "odd-dep"
	case 20:
		// a second default for some base path (or one for the main module's base)
		d := top.get("deps")
		if d == nil || d.kind != 'o' {
			d = c17mfO()
			top.set("deps", d)
		}
		base := Pick(r, c17mfBases)
		if m := top.get("module"); m != nil && m.kind == 's' && r.Bool() {
			base, _, _ = strings.Cut(m.s, "@")
		}
		for _, maj := range []int{0, 1 + r.Intn(3)} {
			d.set(fmt.Sprintf("%s@v%d", base, maj), c17mfO().set("v", c17mfS(c17mfVersion(r, maj))).set("default", c17mfB(true)))
		}
		return "double-default"
	case 21:
		switch r.Intn(3) {
		case 0:
			top.set("deps", c17mfO())
		case 1:
			top.set("custom", c17mfO())
		case 2:
			c17mfEnsureDep(r, top).set("default", c17mfB(false))
		}
		return "zero-valued"
	}
	return "none"
}

func c17mfOkMain(s string) bool {
	defer func() { recover() }()
	return (&modfile.File{Module: s}).Init() == nil
}

func c17mfOkDep(m, v string) (ok bool) {
	defer func() {
		if e := recover(); e != nil {
			ok = false
		}
	}()
	mv, err := module.NewVersion(m, v)
	if err != nil || mv.Path() != m {
		return false
	}
	// the per-dependency part of File.Init (strict), asked of the implementation itself so
	// that the verdict follows the code (e.g. whether an empty version is acceptable)
	return (&modfile.File{Module: "verif.test/main@v0", Deps: map[string]*modfile.Dep{m: {Version: v}}}).Init() == nil
}

// c17mfOracle computes the library verdicts the model takes as trusted parameters.
func c17mfOracle(top *c17mfVal) (mains, deps string) {
	mains, deps = "_", "_"
	mod := ""
	if m := top.get("module"); m != nil && m.kind == 's' {
		mod = m.s
	}
	if c17mfOkMain(mod) {
		mains = H(mod)
	}
	var ds []string
	if d := top.get("deps"); d != nil && d.kind == 'o' {
		for i, k := range d.keys {
			v := ""
			if x := d.vals[i].get("v"); x != nil && x.kind == 's' {
				v = x.s
			}
			if c17mfOkDep(k, v) {
				ds = append(ds, H(k)+":"+H(v))
			}
		}
	}
	if len(ds) > 0 {
		deps = strings.Join(ds, ",")
	}
	return
}

// c17mfShowFile renders a parsed File exactly like the model driver's showModfile.
func c17mfShowFile(f *modfile.File) string {
	opt := func(ok bool, s string) string {
		if !ok {
			return "_"
		}
		return H(s)
	}
	lang, src := "_", "_"
	if f.Language != nil {
		lang = opt(true, f.Language.Version)
	}
	if f.Source != nil {
		src = opt(true, f.Source.Kind)
	}
	deps := "_"
	if len(f.Deps) > 0 {
		keys := make([]string, 0, len(f.Deps))
		for k := range f.Deps {
			keys = append(keys, k)
		}
		sort.Strings(keys)
		var parts []string
		for _, k := range keys {
			d := f.Deps[k]
			b := "0"
			if d.Default {
				b = "1"
			}
			parts = append(parts, H(k)+":"+H(d.Version)+":"+b+":"+H(d.ReplaceWith))
		}
		deps = strings.Join(parts, ";")
	}
	cust := "_"
	if f.Custom != nil {
		m := map[string]any{}
		for k, v := range f.Custom {
			m[k] = v
		}
		cust = c17mfEnc(c17mfFromAny(m))
	}
	return "ok m=" + H(f.Module) + " l=" + lang + " s=" + src + " d=" + deps + " c=" + cust
}

// c17mfMissing returns the path of a field of `in` that is absent from (or different in)
// `out`; "" if there is none.  Zero-valued optional fields (default: false,
// replaceWith: "", deps: {}) are the same File as their absence and are not counted.
func c17mfMissing(in, out *c17mfVal, path []string) string {
	if out == nil || in.kind != out.kind {
		return strings.Join(path, ".")
	}
	switch in.kind {
	case 's':
		if in.s != out.s {
			return strings.Join(path, ".")
		}
	case 'b':
		if in.b != out.b {
			return strings.Join(path, ".")
		}
	case 'n':
		if in.n != out.n {
			return strings.Join(path, ".")
		}
	case 'l':
		if len(in.elems) != len(out.elems) {
			return strings.Join(path, ".")
		}
		for i := range in.elems {
			if p := c17mfMissing(in.elems[i], out.elems[i], append(path[:len(path):len(path)], "["+strconv.Itoa(i)+"]")); p != "" {
				return p
			}
		}
	case 'o':
		for i, k := range in.keys {
			v := in.vals[i]
			o := out.get(k)
			if o == nil {
				inDep := len(path) == 2 && path[0] == "deps"
				switch {
				case len(path) == 0 && k == "deps" && v.kind == 'o' && len(v.keys) == 0:
					continue
				case len(path) == 0 && k == "description" && v.kind == 's' && v.s == "":
					// the zero value, like an absent field (only matters once File has
					// a Description field; without one every description is dropped)
					continue
				case inDep && k == "default" && v.kind == 'b' && !v.b:
					continue
				case inDep && k == "replaceWith" && v.kind == 's' && v.s == "":
					continue
				}
			}
			if p := c17mfMissing(v, o, append(path[:len(path):len(path)], k)); p != "" {
				return p
			}
		}
	}
	return ""
}

func c17mfTreeCase(c *Cfg, r *Rng, cur string) {
	top, lv := c17mfValidTree(r)
	mut := "valid"
	if r.Chance(3, 4) {
		mut = c17mfMutate(r, top, lv)
		if r.Chance(1, 8) {
			mut += "+" + c17mfMutate(r, top, lv)
		}
	}
	for _, m := range strings.Split(mut, "+") {
		c.Count("modfile/tree/mutation=" + m)
	}
	text := c17mfText(top)
	tree := c17mfEnc(top)
	mains, deps := c17mfOracle(top)
	f, err := c17mfParse([]byte(text))
	answer := "reject"
	if err != nil && strings.HasPrefix(err.Error(), "PANIC") {
		answer = "panic"
	}
	if err == nil {
		answer = c17mfShowFile(f)
		c.Count("modfile/tree/accepted")
		for _, m := range strings.Split(mut, "+") {
			c.Count("modfile/tree/accepted/" + m)
		}
	} else {
		c.Count("modfile/tree/rejected")
	}
	c.Case("tree "+tree, mut != "valid")
	c.Op("O", "mfdecode "+tree+" "+H(cur)+" "+mains+" "+deps, answer)
	if err != nil {
		return
	}
	// rejected rather than dropped: every field of the accepted input must survive
	// Format(Parse(text)).
	out, ferr := c17mfFormat(f)
	if ferr != nil {
		class := "modfile-format-error"
		if e := c17mfNoVersionDep(top); e {
			class = "modfile-parsed-unformattable"
		}
		c.Direct(false, class, "Parse accepts the text but Format rejects the parsed File: "+ferr.Error(), text)
		return
	}
	var data any
	if derr := cuecontext.New().CompileBytes(out).Decode(&data); derr != nil {
		c.Direct(false, "modfile-format-error", "Format output is not data: "+derr.Error(), text)
		return
	}
	miss := c17mfMissing(top, c17mfFromAny(data), nil)
	class := "modfile-field-dropped"
	if miss == "description" {
		class = "modfile-description-dropped"
		c.Count("modfile/tree/description-dropped")
	}
	c.Direct(miss == "", class, "field "+miss+" of an accepted module file is missing from Format(Parse(text))", map[string]any{"text": text, "formatted": string(out)})
}

func c17mfNoVersionDep(top *c17mfVal) bool {
	d := top.get("deps")
	if d == nil || d.kind != 'o' {
		return false
	}
	for _, e := range d.vals {
		if e.kind == 'o' && e.get("v") == nil {
			return true
		}
	}
	return false
}

func c17Modfile(c *Cfg, r *Rng) {
	cur := cueversion.LanguageVersion()
	for i, n := 0, c.Pick(1500, 15000); i < n; i++ {
		c17mfRoundTrip(c, r.Sub())
	}
	for i, n := 0, c.Pick(3000, 30000); i < n; i++ {
		c17mfTreeCase(c, r.Sub(), cur)
	}
}
