package main

import "fmt"

// c1DumpGen prints n generated programs (replay mode "gen:N").
func c1DumpGen(seed uint64, n int, free bool) {
	r := NewRng(seed)
	for i := 0; i < n; i++ {
		g := &c1gen{r: r.Sub(), counts: map[string]int{}, maxDepth: 2 + i%3, free: free}
		src := g.Program()
		res := c1Eval([]string{src})
		fmt.Printf("%s  => nErr=%d nInc=%d %s\n---\n", src, res.info.nErr, res.info.nInc, c1clip2(res.canon))
	}
}
