package main

// C17 — `cue mod tidy` reaches a correct fixpoint; module files round-trip.
//
// The implementation is driven the way the CLI drives it (cmd/cue/cmd/modtidy.go):
// modload.Tidy / modload.CheckTidy with non-nil TidyOptions over an fs.FS holding the main
// module, and a registry stack modcache.New(modregistry.NewClient(<OCI registry>)) — the
// same stack modconfig builds for the CLI — over an in-memory OCI registry (ocimem) filled
// by modregistrytest.Upload and wrapped to randomise tag-listing order and latency.

import (
	"bytes"
	"context"
	"io"
	"errors"
	"fmt"
	"io/fs"
	"iter"
	"os"
	"path/filepath"
	"sort"
	"strings"
	"sync"
	"sync/atomic"
	"testing/fstest"
	"time"

	"cuelabs.dev/go/oci/ociregistry"
	"cuelabs.dev/go/oci/ociregistry/ocimem"

	"cuelang.org/go/cue/ast"
	"cuelang.org/go/internal/mod/modload"
	"cuelang.org/go/internal/mod/modpkgload"
	"cuelang.org/go/internal/mod/semver"
	"cuelang.org/go/mod/modcache"
	"cuelang.org/go/mod/modfile"
	"cuelang.org/go/mod/modregistry"
	"cuelang.org/go/mod/modzip"
	"cuelang.org/go/mod/module"
)

func init() { props["C17"] = runC17 }

// ---- registry decorator ---------------------------------------------------------------

type c17Reg struct {
	ociregistry.Interface
	mu    sync.Mutex
	r     *Rng
	delay bool
}

func (q *c17Reg) nap() {
	if !q.delay {
		return
	}
	q.mu.Lock()
	d := time.Duration(q.r.Intn(150)) * time.Microsecond
	q.mu.Unlock()
	if d > 0 {
		time.Sleep(d)
	}
}

func (q *c17Reg) Tags(ctx context.Context, repo string, startAfter string) iter.Seq2[string, error] {
	q.nap()
	var tags []string
	var terr error
	for t, err := range q.Interface.Tags(ctx, repo, startAfter) {
		if err != nil {
			terr = err
			break
		}
		tags = append(tags, t)
	}
	q.mu.Lock()
	Shuffle(q.r, tags)
	q.mu.Unlock()
	return func(yield func(string, error) bool) {
		for _, t := range tags {
			if !yield(t, nil) {
				return
			}
		}
		if terr != nil {
			yield("", terr)
		}
	}
}

func (q *c17Reg) GetTag(ctx context.Context, repo string, tagName string) (ociregistry.BlobReader, error) {
	q.nap()
	return q.Interface.GetTag(ctx, repo, tagName)
}

func (q *c17Reg) GetManifest(ctx context.Context, repo string, d ociregistry.Digest) (ociregistry.BlobReader, error) {
	q.nap()
	return q.Interface.GetManifest(ctx, repo, d)
}

func (q *c17Reg) GetBlob(ctx context.Context, repo string, d ociregistry.Digest) (ociregistry.BlobReader, error) {
	q.nap()
	return q.Interface.GetBlob(ctx, repo, d)
}

// ---- upload -----------------------------------------------------------------------------
//
// modregistrytest.Upload (the repo's test helper) walks module dependencies depth first
// without a visited set and does not terminate on cyclic requirement graphs, which the
// property's quantifier includes; so the modules are pushed here, the same way the helper
// pushes them: modzip.Create + modregistry.Client.PutModule (with all of PutModule's checks).

type c17File struct {
	name string
	data []byte
}

type c17FileIO struct{}

func (c17FileIO) Path(f c17File) string { return f.name }
func (c17FileIO) Lstat(f c17File) (os.FileInfo, error) {
	return c17FileInfo{f}, nil
}
func (c17FileIO) Open(f c17File) (io.ReadCloser, error) {
	return io.NopCloser(bytes.NewReader(f.data)), nil
}

type c17FileInfo struct{ f c17File }

func (fi c17FileInfo) Name() string       { return filepath.Base(fi.f.name) }
func (fi c17FileInfo) Size() int64        { return int64(len(fi.f.data)) }
func (fi c17FileInfo) Mode() os.FileMode  { return 0o644 }
func (fi c17FileInfo) ModTime() time.Time { return time.Time{} }
func (fi c17FileInfo) IsDir() bool        { return false }
func (fi c17FileInfo) Sys() interface{}   { return nil }

func c17Upload(reg ociregistry.Interface, u *c17Universe) error {
	client := modregistry.NewClient(reg)
	tree := u.registryFS()
	byMod := map[string][]c17File{}
	for name, f := range tree {
		root, rest, _ := strings.Cut(name, "/")
		byMod[root] = append(byMod[root], c17File{rest, f.Data})
	}
	for _, m := range u.Mods {
		root := strings.ReplaceAll(m.Base.String(), "/", "_") + "_" + c17Version(m.Major, m.Rank)
		files := byMod[root]
		sort.Slice(files, func(i, j int) bool { return files[i].name < files[j].name })
		mv, err := module.NewVersion(fmt.Sprintf("%s@v%d", m.Base, m.Major), c17Version(m.Major, m.Rank))
		if err != nil {
			return err
		}
		var zb bytes.Buffer
		if err := modzip.Create(&zb, mv, files, c17FileIO{}); err != nil {
			return err
		}
		if err := client.PutModule(context.Background(), mv, bytes.NewReader(zb.Bytes()), int64(zb.Len())); err != nil {
			return err
		}
	}
	return nil
}

// ---- a direct in-memory implementation of modload.Registry ----------------------------
//
// Most universes are served by this (fast) registry; every few universes go through the
// full production stack (OCI registry + modregistry client + modcache on disk) instead.

type c17MemReg struct {
	tree  fstest.MapFS
	roots map[module.Version]string
	texts map[module.Version][]byte
	mu    sync.Mutex
	r     *Rng
	delay bool
}

func c17NewMemReg(u *c17Universe, r *Rng, delay bool) *c17MemReg {
	q := &c17MemReg{tree: u.registryFS(), roots: map[module.Version]string{}, texts: map[module.Version][]byte{}, r: r, delay: delay}
	for _, m := range u.Mods {
		root := strings.ReplaceAll(m.Base.String(), "/", "_") + "_" + c17Version(m.Major, m.Rank)
		mv := module.MustNewVersion(fmt.Sprintf("%s@v%d", m.Base, m.Major), c17Version(m.Major, m.Rank))
		q.roots[mv] = root
		q.texts[mv] = q.tree[root+"/cue.mod/module.cue"].Data
	}
	return q
}

func (q *c17MemReg) nap() {
	if !q.delay {
		return
	}
	q.mu.Lock()
	d := time.Duration(q.r.Intn(120)) * time.Microsecond
	q.mu.Unlock()
	if d > 0 {
		time.Sleep(d)
	}
}

func (q *c17MemReg) Fetch(ctx context.Context, m module.Version) (module.SourceLoc, error) {
	q.nap()
	root, ok := q.roots[m]
	if !ok {
		return module.SourceLoc{}, &modregistry.ModuleError{Module: m.String(), Err: modregistry.ErrNotFound}
	}
	sub, err := fs.Sub(q.tree, root)
	if err != nil {
		return module.SourceLoc{}, err
	}
	return module.SourceLoc{FS: sub, Dir: "."}, nil
}

func (q *c17MemReg) ModFile(ctx context.Context, m module.Version) (*modfile.File, error) {
	q.nap()
	data, ok := q.texts[m]
	if !ok {
		return nil, &modregistry.ModuleError{Module: m.String(), Err: modregistry.ErrNotFound}
	}
	return modfile.Parse(data, "cue.mod/module.cue")
}

func (q *c17MemReg) ModuleVersions(ctx context.Context, mpath string) ([]string, error) {
	q.nap()
	base, major, hasMajor := ast.SplitPackageVersion(mpath)
	var out []string
	for mv := range q.roots {
		if mv.BasePath() != base {
			continue
		}
		if hasMajor && semver.Major(mv.Version()) != major {
			continue
		}
		out = append(out, mv.Version())
	}
	semver.Sort(out)
	return out, nil
}

// ---- one world: a universe with its registry -----------------------------------------

type c17World struct {
	u      *c17Universe
	full   bool // the production stack (OCI + modcache on disk)
	mem    ociregistry.Interface
	tmp    string
	caches []string
	n      int
}

var c17TmpSeq atomic.Int64

func c17NewWorld(c *Cfg, u *c17Universe, full bool) (*c17World, error) {
	w := &c17World{u: u, full: full}
	if !full {
		return w, nil
	}
	mem := ocimem.NewWithConfig(&ocimem.Config{ImmutableTags: true})
	if err := c17Upload(mem, u); err != nil {
		return nil, err
	}
	w.mem = mem
	tmp := os.TempDir()
	if st, err := os.Stat("/dev/shm"); err == nil && st.IsDir() {
		tmp = "/dev/shm"
	}
	w.tmp = filepath.Join(tmp, fmt.Sprintf("verif-c17-%d-%d", os.Getpid(), c17TmpSeq.Add(1)))
	return w, nil
}

func (w *c17World) close() {
	for _, d := range w.caches {
		modcache.RemoveAll(d)
	}
	os.RemoveAll(w.tmp)
}

// registry returns a registry stack; fresh selects a new (empty) module cache directory.
func (w *c17World) registry(r *Rng, delay, fresh bool) (modload.Registry, error) {
	if !w.full {
		return c17NewMemReg(w.u, r, delay), nil
	}
	if fresh || len(w.caches) == 0 {
		w.n++
		d := filepath.Join(w.tmp, fmt.Sprintf("cache%d", w.n))
		if err := os.MkdirAll(d, 0o777); err != nil {
			return nil, err
		}
		w.caches = append(w.caches, d)
	}
	reg := &c17Reg{Interface: w.mem, r: r, delay: delay}
	return modcache.New(modregistry.NewClient(reg), w.caches[len(w.caches)-1])
}

var c17Opts = &modload.TidyOptions{
	LocForPath: func(p string) (module.SourceLoc, error) {
		return module.SourceLoc{}, fmt.Errorf("no directory replacements in this harness")
	},
}

type c17Result struct {
	ok    bool
	deps  []c17Dep
	text  string // formatted module file (ok only)
	kind  string // error kind
	err   string
	local bool
}

func c17ErrKind(err error) string {
	s := err.Error()
	var nt *modload.ErrModuleNotTidy
	switch {
	case errors.As(err, &nt):
		return "nottidy"
	case strings.HasPrefix(s, "panic:"):
		return "panic"
	case strings.Contains(s, "ambiguous import"):
		return "ambiguous"
	case strings.Contains(s, "cannot find module providing package"):
		return "missing"
	case strings.Contains(s, "cannot fetch") || strings.Contains(s, "not found"):
		return "fetch"
	case strings.Contains(s, "no files in package directory"):
		return "nofiles"
	}
	return "other"
}

func c17DepsOf(f *modfile.File) ([]c17Dep, error) {
	var out []c17Dep
	for mp, d := range f.Deps {
		base, ver, ok := ast.SplitPackageVersion(mp)
		if !ok {
			return nil, fmt.Errorf("dep %q has no major version", mp)
		}
		var major, minor, patch int
		rest := ""
		n, _ := fmt.Sscanf(d.Version, "v%d.%d.%d%s", &major, &minor, &patch, &rest)
		if n < 3 || patch != 0 || (rest != "" && rest != "-pre") || fmt.Sprintf("v%d", major) != ver {
			return nil, fmt.Errorf("dep %q has unexpected version %q", mp, d.Version)
		}
		rank := 2*minor + 1
		if rest == "-pre" {
			rank = 2 * minor
		}
		out = append(out, c17Dep{Base: c17ParsePath(base), Major: major, Rank: rank, Def: d.Default})
	}
	c17SortDeps(out)
	return out, nil
}

func (w *c17World) tidy(fsys fs.FS, reg modload.Registry) (res c17Result) {
	defer func() {
		if e := recover(); e != nil {
			res = c17Result{kind: "panic", err: fmt.Sprint("panic: ", e)}
		}
	}()
	tr, err := modload.Tidy(context.Background(), fsys, ".", reg, c17Opts)
	if err != nil {
		return c17Result{kind: c17ErrKind(err), err: err.Error()}
	}
	if tr.Module == nil {
		return c17Result{kind: "other", err: "Tidy returned no module file"}
	}
	deps, err := c17DepsOf(tr.Module)
	if err != nil {
		return c17Result{kind: "other", err: err.Error()}
	}
	data, err := modfile.Format(tr.Module)
	if err != nil {
		return c17Result{kind: "format", err: "Format of Tidy's result fails: " + err.Error()}
	}
	return c17Result{ok: true, deps: deps, text: string(data), local: tr.Local != nil}
}

func (w *c17World) check(fsys fs.FS, reg modload.Registry) (kind string, msg string) {
	defer func() {
		if e := recover(); e != nil {
			kind, msg = "panic", fmt.Sprint("panic: ", e)
		}
	}()
	err := modload.CheckTidy(context.Background(), fsys, ".", reg, c17Opts)
	if err == nil {
		return "ok", ""
	}
	return c17ErrKind(err), err.Error()
}

func (r c17Result) answer() string {
	if !r.ok {
		return "error"
	}
	return "ok " + c17DepsCode(r.deps)
}

// ---- the property's own predicates, evaluated independently of modload ----------------
//
// A small reference resolver written from the property text: the build list of a module
// file is the MVS selection over  main → listed deps → each listed dep's own deps  (the
// pruned graph C14 is about); an import resolves to the modules of the build list whose
// base path is a prefix of the import path, whose major version is the one named in the
// import (or the importer's default for that base path), and which contain the directory.

type c17Ref struct {
	u    *c17Universe
	mods map[string]*c17Mod // base@major=rank
}

func c17Key(base c17Path, major, rank int) string {
	return fmt.Sprintf("%s@%d=%d", base.Code(), major, rank)
}

func c17NewRef(u *c17Universe) *c17Ref {
	x := &c17Ref{u: u, mods: map[string]*c17Mod{}}
	for i := range u.Mods {
		m := &u.Mods[i]
		x.mods[c17Key(m.Base, m.Major, m.Rank)] = m
	}
	return x
}

// buildList returns selected rank per module path "base@major" for a dep list.
func (x *c17Ref) buildList(deps []c17Dep) (sel map[string]int, missing bool) {
	sel = map[string]int{}
	bump := func(d c17Dep) {
		k := fmt.Sprintf("%s@%d", d.Base.Code(), d.Major)
		if sel[k] < d.Rank {
			sel[k] = d.Rank
		}
	}
	for _, d := range deps {
		bump(d)
		m := x.mods[c17Key(d.Base, d.Major, d.Rank)]
		if m == nil {
			missing = true
			continue
		}
		for _, e := range m.Deps {
			if e.Base.Code() == x.u.Main.Base.Code() && e.Major == x.u.Main.Major {
				continue
			}
			bump(e)
		}
	}
	return sel, missing
}

// c17Defaults: the default majors an importer's own module file gives (its own path, explicit
// defaults, else the unique major among its requirements of a base path)
func c17Defaults(selfBase c17Path, selfMajor int, deps []c17Dep) map[string]int {
	def := map[string]int{}
	majors := map[string]map[int]bool{}
	expl := map[string]bool{}
	for _, d := range deps {
		b := d.Base.Code()
		if majors[b] == nil {
			majors[b] = map[int]bool{}
		}
		majors[b][d.Major] = true
		if d.Def {
			def[b] = d.Major
			expl[b] = true
		}
	}
	for b, ms := range majors {
		if !expl[b] && len(ms) == 1 {
			for m := range ms {
				def[b] = m
			}
		}
	}
	def[selfBase.Code()] = selfMajor
	return def
}

func c17ModHasPkg(m *c17Mod, p c17Path) bool {
	for _, q := range m.Pkgs {
		if q.Path.Code() == p.Code() {
			return true
		}
	}
	return false
}

type c17Audit struct {
	unresolved []string // imports with no provider in the build list
	ambiguous  []string
	unused     []string // listed deps providing no needed package
	unlisted   []string // modules an import resolves to that are not listed
	belowSel   []string // listed deps whose listed version is below the build list's selection
	missingMod bool
	twoMajors  bool // two majors of one base path listed, none of them marked default
	// the root set and the module graph disagree somewhere on the way: the INPUT file lists a
	// module below the version its own graph selects, or a module that tidy newly lists brings
	// a requirement that raises (or introduces) a selection nothing else justifies — tidy has
	// no step that brings roots and graph back into agreement and reloads
	inputBelow    bool
	promotedRaise bool
}

func (a *c17Audit) clean() bool {
	return len(a.unresolved) == 0 && len(a.ambiguous) == 0 && len(a.unused) == 0 && len(a.unlisted) == 0 &&
		len(a.belowSel) == 0 && !a.missingMod
}

// tag names the known-finding class a flawed result falls under ("" = none).
func (a *c17Audit) tag() string {
	switch {
	case len(a.belowSel) > 0 || a.inputBelow || a.promotedRaise:
		return "roots-graph-inconsistent"
	case len(a.ambiguous) > 0:
		return "ambiguous-in-build-list"
	case a.twoMajors:
		// repaired in 8593d77 (keepImpliedDefaults); a relapse is reported under this class,
		// which is no longer a known finding
		return "two-majors-no-default"
	}
	return ""
}

// providers of an import in the build list sel, with the given default majors
func (x *c17Ref) providers(sel map[string]int, im c17Imp, def map[string]int) (mods []*c17Mod, keys []string) {
	main := &x.u.Main
	for n := len(im.Path); n >= 1; n-- {
		base := im.Path[:n]
		major := im.Major
		if major < 0 {
			d, ok := def[base.Code()]
			if !ok {
				continue
			}
			major = d
		}
		var m *c17Mod
		key := fmt.Sprintf("%s@%d", base.Code(), major)
		if base.Code() == main.Base.Code() && major == main.Major {
			m = main
		} else if rk, ok := sel[key]; ok {
			m = x.mods[c17Key(base, major, rk)]
		}
		if m != nil && c17ModHasPkg(m, im.Path) {
			mods = append(mods, m)
			keys = append(keys, key)
		}
	}
	return
}

// mainDefaults: explicit defaults, the main module's own path, else the single listed entry
// of a base path (several entries without an explicit default: no default)
func c17MainDefaults(main *c17Mod, deps []c17Dep) (map[string]int, bool) {
	def := map[string]int{}
	cnt := map[string]int{}
	expl := map[string]bool{main.Base.Code(): true}
	def[main.Base.Code()] = main.Major
	for _, d := range deps {
		cnt[d.Base.Code()]++
		if d.Def {
			def[d.Base.Code()] = d.Major
			expl[d.Base.Code()] = true
		}
	}
	two := false
	for _, d := range deps {
		b := d.Base.Code()
		if expl[b] {
			continue
		}
		if cnt[b] == 1 {
			def[b] = d.Major
		} else {
			two = true
		}
	}
	return def, two
}

// audit evaluates the property's predicates for the module file `deps` of the main module.
func (x *c17Ref) audit(deps []c17Dep) *c17Audit {
	a := &c17Audit{}
	sel, missing := x.buildList(deps)
	a.missingMod = missing
	listed := map[string]bool{}
	for _, d := range deps {
		k := fmt.Sprintf("%s@%d", d.Base.Code(), d.Major)
		listed[k] = true
		if sel[k] > d.Rank {
			a.belowSel = append(a.belowSel, d.Code())
		}
	}
	main := &x.u.Main
	mainDef, two := c17MainDefaults(main, deps)
	a.twoMajors = two
	// the input file: a listed version below its own graph's selection
	inSel, _ := x.buildList(main.Deps)
	inRoot := map[string]bool{}
	for _, d := range main.Deps {
		k := fmt.Sprintf("%s@%d", d.Base.Code(), d.Major)
		inRoot[k] = true
		if inSel[k] > d.Rank {
			a.inputBelow = true
		}
	}
	// newly listed modules: do their requirements change the selection?
	base := map[string]int{} // selection without the requirements of newly listed modules
	bump := func(m map[string]int, d c17Dep) {
		k := fmt.Sprintf("%s@%d", d.Base.Code(), d.Major)
		if m[k] < d.Rank {
			m[k] = d.Rank
		}
	}
	for _, d := range deps {
		bump(base, d)
		if inRoot[fmt.Sprintf("%s@%d", d.Base.Code(), d.Major)] {
			if m := x.mods[c17Key(d.Base, d.Major, d.Rank)]; m != nil {
				for _, e := range m.Deps {
					bump(base, e)
				}
			}
		}
	}
	for _, d := range deps {
		if inRoot[fmt.Sprintf("%s@%d", d.Base.Code(), d.Major)] {
			continue
		}
		if m := x.mods[c17Key(d.Base, d.Major, d.Rank)]; m != nil {
			for _, e := range m.Deps {
				if e.Base.Code() == main.Base.Code() && e.Major == main.Major {
					continue
				}
				if base[fmt.Sprintf("%s@%d", e.Base.Code(), e.Major)] < e.Rank {
					a.promotedRaise = true
				}
			}
		}
	}
	used := map[string]bool{}
	type item struct {
		imp c17Imp
		ctx *c17Mod // nil = main
	}
	seen := map[string]bool{}
	var queue []item
	push := func(im c17Imp, ctx *c17Mod) {
		k := "main " + im.Code()
		if ctx != nil {
			k = c17Key(ctx.Base, ctx.Major, ctx.Rank) + " " + im.Code()
		}
		if !seen[k] {
			seen[k] = true
			queue = append(queue, item{im, ctx})
		}
	}
	for _, p := range main.Pkgs {
		for _, im := range p.Imports {
			push(im, nil)
		}
	}
	for len(queue) > 0 {
		it := queue[0]
		queue = queue[1:]
		im := it.imp
		if !strings.Contains(c17Elems[im.Path[0]], ".") {
			continue // standard library
		}
		if it.ctx != nil && im.Major < 0 {
			// the importer's own module file decides the major version
			ms, _ := x.providers(sel, im, c17Defaults(it.ctx.Base, it.ctx.Major, it.ctx.Deps))
			if len(ms) > 1 {
				a.ambiguous = append(a.ambiguous, im.Code())
				continue
			}
			if len(ms) == 1 && ms[0] != main {
				im = c17Imp{Path: im.Path, Major: ms[0].Major}
			}
		}
		provs, keys := x.providers(sel, im, mainDef)
		switch len(provs) {
		case 0:
			a.unresolved = append(a.unresolved, it.imp.Code())
			continue
		case 1:
		default:
			a.ambiguous = append(a.ambiguous, it.imp.Code())
			continue
		}
		m := provs[0]
		var ctx *c17Mod
		if m != main {
			used[keys[0]] = true
			if !listed[keys[0]] {
				a.unlisted = append(a.unlisted, keys[0])
			}
			ctx = m
		}
		for _, p := range m.Pkgs {
			if p.Path.Code() == im.Path.Code() {
				for _, im2 := range p.Imports {
					push(im2, ctx)
				}
			}
		}
	}
	for _, d := range deps {
		if !used[fmt.Sprintf("%s@%d", d.Base.Code(), d.Major)] {
			a.unused = append(a.unused, d.Code())
		}
	}
	sort.Strings(a.unresolved)
	sort.Strings(a.ambiguous)
	sort.Strings(a.unused)
	sort.Strings(a.unlisted)
	return a
}

// closed reports whether every requirement of every published module (and of the main
// module) names a module version the registry has.
func (u *c17Universe) closed() bool {
	have := map[string]bool{}
	for _, m := range u.Mods {
		have[c17Key(m.Base, m.Major, m.Rank)] = true
	}
	ok := func(ds []c17Dep) bool {
		for _, d := range ds {
			if !have[c17Key(d.Base, d.Major, d.Rank)] {
				return false
			}
		}
		return true
	}
	for _, m := range u.Mods {
		if !ok(m.Deps) {
			return false
		}
	}
	return ok(u.Main.Deps)
}

// ---- cases ------------------------------------------------------------------------------

func c17Case(c *Cfg, r *Rng, u *c17Universe, full bool) {
	w, err := c17NewWorld(c, u, full)
	if err != nil {
		// the generator produced something the registry refuses: a harness bug
		c.Direct(false, "harness-upload", "cannot upload generated universe: "+err.Error(), u.Code())
		return
	}
	defer w.close()
	code := u.Code()
	reg, err := w.registry(r.Sub(), false, true)
	if err != nil {
		c.Direct(false, "harness-upload", err.Error(), code)
		return
	}
	// 1. Tidy and CheckTidy on the input, answered by the model too
	res := w.tidy(u.mainFS("", nil), reg)
	c.Op("O", "tidy "+code, res.answer())
	ck, _ := w.check(u.mainFS("", nil), reg)
	ckAns := ck
	if ck != "ok" && ck != "nottidy" {
		ckAns = "error"
	}
	c.Op("O", "check "+code, ckAns)
	c.Count("stack/" + map[bool]string{true: "oci+modcache", false: "in-memory"}[full])
	c.Count("tidy/" + map[bool]string{true: "ok", false: "error-" + res.kind}[res.ok])
	c.Count("check/" + ck)
	if os.Getenv("C17_DEBUG") != "" && !res.ok {
		fmt.Fprintf(os.Stderr, "ERR %s: %s\n", res.kind, strings.ReplaceAll(res.err, "\n", " "))
	}
	if res.kind == "panic" {
		c.Direct(false, "tidy-panic", "modload.Tidy panics: "+res.err, code)
	}
	c.Case("tidy "+code, res.ok && len(res.deps) > 0)

	// 2. order independence: permuted files / imports / deps / registry listing, fresh
	//    cache, random latency
	shuffles := c.Pick(2, 3)
	for k := 0; k < shuffles; k++ {
		v := u.shuffled(r)
		regK, err := w.registry(r.Sub(), true, k == 0)
		if err != nil {
			continue
		}
		var w2 *c17World
		if k == shuffles-1 { // a registry filled in another order
			if w2, err = c17NewWorld(c, v, full); err == nil {
				if rk, err := w2.registry(r.Sub(), true, true); err == nil {
					regK = rk
				}
			}
		}
		resK := w.tidy(v.mainFS("", r), regK)
		c.Direct(resK.answer() == res.answer(), "order-dependence",
			"Tidy's result depends on file/import/deps/registry-listing order or on timing",
			map[string]any{"universe": code, "permuted": v.Code(), "first": res.answer() + " " + res.err, "now": resK.answer() + " " + resK.err})
		if w2 != nil {
			w2.close()
		}
	}
	if !res.ok {
		return
	}
	if !u.closed() {
		// a module of the registry requires a version the registry does not have: whether
		// tidy trips over it depends on which versions happen to be selected, so the
		// fixpoint and soundness predicates are only evaluated for registries that are
		// closed under requirements (stated as an assumption of the property check)
		c.Count("universe/not-closed-under-requirements")
		return
	}
	if res.local {
		c.Direct(false, "unexpected-local", "Tidy produced a local-module.cue although no replace exists", code)
	}

	// 3. fixpoint: Tidy on its own output changes nothing, CheckTidy accepts it
	tidied := *u
	tidied.Main.Deps = res.deps
	tcode := tidied.Code()
	res2 := w.tidy(u.mainFS(res.text, nil), reg)
	x := c17NewRef(u)
	aud := x.audit(res.deps)
	tag := aud.tag()
	class := func(name string) string {
		if tag != "" {
			return tag
		}
		return name
	}
	if tag != "" {
		c.Count("finding-shape/" + tag)
	}
	c.Direct(res2.ok && res2.text == res.text, class("not-idempotent"), "Tidy(Tidy(x)) differs from Tidy(x)",
		map[string]any{"universe": code, "tidied": tcode, "first": res.text, "second": res2.answer() + " " + res2.err + "\n" + res2.text})
	ck2, ckMsg := w.check(u.mainFS(res.text, nil), reg)
	c.Direct(ck2 == "ok", class("check-rejects-tidy-output"), "CheckTidy rejects Tidy's own output: "+ck2+": "+ckMsg,
		map[string]any{"universe": code, "tidied": tcode, "text": res.text})
	// the model's answers on the tidied file as well
	c.Op("O", "tidy "+tcode, res2.answer())

	// 4. the property's predicates, by the reference resolver here and by the Lean specification
	c.Direct(len(aud.belowSel) == 0, class("mvs-root-below-selected"),
		"a listed version is below the version minimal version selection picks in the tidied file's own graph: "+strings.Join(aud.belowSel, " "),
		map[string]any{"universe": code, "tidied": res.answer()})
	c.Direct(len(aud.unresolved) == 0 && len(aud.ambiguous) == 0 && !aud.missingMod, class("unresolved-import"),
		fmt.Sprintf("an import does not resolve uniquely in the build list of the tidied file: unresolved %v ambiguous %v", aud.unresolved, aud.ambiguous),
		map[string]any{"universe": code, "tidied": res.answer()})
	c.Direct(len(aud.unused) == 0, class("unused-entry"),
		"a listed module provides no needed package: "+strings.Join(aud.unused, " "),
		map[string]any{"universe": code, "tidied": res.answer()})
	c.Direct(len(aud.unlisted) == 0, class("needed-module-not-listed"),
		"an import resolves to a module of the build list that is not listed: "+strings.Join(aud.unlisted, " "),
		map[string]any{"universe": code, "tidied": res.answer()})
	c.OpTag("O", tag, "spec "+code+" "+c17DepsCode(res.deps), "ok")
}

// ---- witnesses of the Lean counterexample theorems, replayed on the implementation -------

func c17ParsePathCode(s string) c17Path {
	var p c17Path
	for _, e := range strings.Split(s, ".") {
		n := 0
		fmt.Sscanf(e, "%d", &n)
		p = append(p, n)
	}
	return p
}

func c17ParseDepsCode(s string) []c17Dep {
	var out []c17Dep
	if s == "-" {
		return nil
	}
	for _, d := range strings.Split(s, ",") {
		def := strings.HasSuffix(d, "!")
		d = strings.TrimSuffix(d, "!")
		mp, rk, _ := strings.Cut(d, "=")
		b, mj, _ := strings.Cut(mp, "@")
		var major, rank int
		fmt.Sscanf(mj, "%d", &major)
		fmt.Sscanf(rk, "%d", &rank)
		out = append(out, c17Dep{Base: c17ParsePathCode(b), Major: major, Rank: rank, Def: def})
	}
	return out
}

func c17ParsePkgsCode(s string) []c17Pkg {
	var out []c17Pkg
	if s == "-" {
		return nil
	}
	for _, p := range strings.Split(s, ";") {
		p, ex, _ := strings.Cut(p, "~")
		pp, is, _ := strings.Cut(p, ">")
		pk := c17Pkg{Path: c17ParsePathCode(pp), Extra: c17ParseExtraCode(ex)}
		if is != "-" {
			for _, i := range strings.Split(is, ",") {
				ip, mj, has := strings.Cut(i, "@")
				im := c17Imp{Path: c17ParsePathCode(ip), Major: -1}
				if has {
					fmt.Sscanf(mj, "%d", &im.Major)
				}
				pk.Imports = append(pk.Imports, im)
			}
		}
		out = append(out, pk)
	}
	return out
}

// c17ParseUniverse reads the text c17Universe.Code writes.
func c17ParseUniverse(code string) *c17Universe {
	mainS, regS, _ := strings.Cut(code, " ")
	u := &c17Universe{}
	f := strings.Split(mainS, "#")
	b, mj, _ := strings.Cut(f[0], "@")
	u.Main = c17Mod{Base: c17ParsePathCode(b), Deps: c17ParseDepsCode(f[1]), Pkgs: c17ParsePkgsCode(f[2])}
	fmt.Sscanf(mj, "%d", &u.Main.Major)
	if regS != "-" {
		for _, ms := range strings.Split(regS, "|") {
			f := strings.Split(ms, "#")
			mp, rk, _ := strings.Cut(f[0], "=")
			b, mj, _ := strings.Cut(mp, "@")
			m := c17Mod{Base: c17ParsePathCode(b), Deps: c17ParseDepsCode(f[1]), Pkgs: c17ParsePkgsCode(f[2])}
			fmt.Sscanf(mj, "%d", &m.Major)
			fmt.Sscanf(rk, "%d", &m.Rank)
			u.Mods = append(u.Mods, m)
		}
	}
	return u
}

// The universes of the theorems C17_mvs_consistent_false, C17_idem_false,
// C17_two_majors_repaired and C17_sound_complete_false (Props/C17.lean), with the result they
// produce on the current tree.
var c17WitnessList = []struct{ name, code, want string }{
	// t.test/m lists only t.test/a; a's packages import b/x and c/x, a requires b v0.1.0 and
	// c v0.1.0; c v0.1.0 requires b v0.2.0.  The input file is consistent (b is not in c's
	// pruned view); the tidied file lists b v0.1.0 although its own graph selects b v0.2.0.
	{"roots-graph-inconsistent", "8.5@0#8.1@0=3#8.5.10>8.1.10 8.1@0=3#8.2@0=3,8.3@0=3#8.1.10>8.2.10,8.3.10|8.2@0=3#-#8.2.10>-|8.2@0=5#-#8.2.10>-|8.3@0=3#8.2@0=5#8.3.10>-",
		"ok 8.1@0=3,8.2@0=3,8.3@0=3"},
	// shape (c) of the same finding (witness of C17_idem_false): main lists u.test/d@v0, which
	// requires t.test/c@v1; c's package imports "u.test/d/n/x", c requires u.test/d@v1. c becomes a
	// root, on the tidied file its requirement brings d@v1 into the build list and a second tidy
	// lists d@v1 instead of d@v0.
	{"roots-graph-inconsistent-promoted", "8.5@0#9.4@0=5#8.5.10>8.3.11@1 8.3@1=7#9.4@1=7#8.3.11>9.4.6.10|9.4@0=5#8.3@1=7#9.4.6.10>-|9.4@1=7#-#9.4.6.10>-",
		"ok 8.3@1=7,9.4@0=5"},
	// REPAIRED (8593d77, keepImpliedDefaults): a/x is imported without a major version, a/y@v1 is
	// reached through b's requirement on a@v1: both majors become roots and the major the
	// unqualified import used is marked default (before the repair: no default, and the tidied
	// file failed to load).  C17_two_majors_repaired.
	{"two-majors-default-kept", "8.5@0#8.1@0=3,8.2@0=3#8.5.10>8.1.10,8.1.11@1 8.1@0=3#-#8.1.10>-|8.1@1=3#-#8.1.11>-|8.2@0=3#8.1@1=3#8.2.10>-",
		"ok 8.1@0=3!,8.1@1=3"},
	// b/x is provided by module t.test (directory b/x) and by module t.test/b, both in the
	// build list; the roots-first lookup picks t.test and never sees the ambiguity.
	{"ambiguous-in-build-list", "8.5@0#-#8.5.10>8.3.10@0 8@0=3#-#8.2.10>-|8.3@0=3#8.2@0=3#8.3.10>8.2.10|8.2@0=3#-#8.2.10>-",
		"ok 8.3@0=3,8@0=3"},
}

func c17Witnesses(c *Cfg) {
	r := NewRng(12345)
	for _, wt := range c17WitnessList {
		u := c17ParseUniverse(wt.code)
		if u.Code() != wt.code {
			c.Direct(false, "harness-witness", "witness does not round-trip through the universe parser: "+wt.name, wt.code)
			continue
		}
		w, err := c17NewWorld(c, u, true)
		if err != nil {
			c.Direct(false, "harness-upload", err.Error(), wt.code)
			continue
		}
		reg, _ := w.registry(r.Sub(), false, true)
		res := w.tidy(u.mainFS("", nil), reg)
		w.close()
		if res.answer() == wt.want {
			c.Count("witness/" + wt.name + "/as-in-the-theorem")
		} else {
			c.Count("witness/" + wt.name + "/changed:" + res.answer())
		}
		c17Case(c, r.Sub(), u, true)
	}
}

func runC17(c *Cfg) {
	r := NewRng(c.Seed)
	if fn := os.Getenv("C17_UNIVERSES"); fn != "" {
		// replay mode: one universe text per line (as printed in replays/*.json)
		data, _ := os.ReadFile(fn)
		for _, line := range strings.Split(string(data), "\n") {
			if line = strings.TrimSpace(line); line != "" {
				c17Case(c, r.Sub(), c17ParseUniverse(line), false)
			}
		}
		return
	}
	c17Witnesses(c)
	n := c.Pick(1500, 40000)
	if c.Focus {
		n = c.Pick(4000, 40000)
	}
	workers := 12
	type job struct {
		u    *c17Universe
		r    *Rng
		full bool
		fam  bool
	}
	jobs := make(chan job, 64)
	var wg sync.WaitGroup
	for i := 0; i < workers; i++ {
		wg.Add(1)
		go func() {
			defer wg.Done()
			for j := range jobs {
				if j.fam {
					c17FamCase(c, j.r, j.u)
				} else {
					c17Case(c, j.r, j.u, j.full)
				}
			}
		}()
	}
	// the "which files count" family (c17_fam.go): structured host/extra-file universes and
	// random universes decorated with extra files
	famDeadline := time.Now().Add(time.Duration(c.Pick(12, 150)) * time.Second)
	for i, nf := 0, c.Pick(600, 12000); i < nf && time.Now().Before(famDeadline); i++ {
		sub := r.Sub()
		var u *c17Universe
		if i%5 < 3 {
			u = c17GenFam(c, sub)
		} else {
			u = c17GenUniverse(sub, 4, 2)
			c17Decorate(c, sub, u)
		}
		jobs <- job{u: u, r: sub.Sub(), fam: true}
	}
	deadline := time.Now().Add(time.Duration(c.Pick(50, 720)) * time.Second)
	for i := 0; i < n && time.Now().Before(deadline); i++ {
		sub := r.Sub()
		maxMods, maxVers := 6, 3
		if i%3 == 0 {
			maxMods, maxVers = 3, 2
		}
		jobs <- job{u: c17GenUniverse(sub, maxMods, maxVers), r: sub.Sub(), full: i%8 == 7}
	}
	close(jobs)
	wg.Wait()
	if !c.Focus {
		c17Modfile(c, r.Sub())
	}
}

var _ = modpkgload.IsStdlibPackage
