package main

// C13, class-I stream `cc`: STRUCTURAL correspondence between the Lean transcription of the
// per-keyword builders (CCm.translate, Model/JsonSchemaCC.lean) and the CUE AST the real importer
// builds.  For generated schemas S of the transcribed subset (numbers, strings, arrays, type /
// enum / const, combinators; no exponent-form numbers) the importer is run on
// {"type":"object","properties":{"p":S}}, the value of field "p" is rendered in the canonical text
// of Driver/C13.lean `ccText`, and compared with the driver's answer for `cc <S>`.
// A builder edit shows up as a concrete schema whose translation differs.

import (
	"fmt"
	"math/big"
	"strconv"
	"strings"
	"sync"

	"cuelang.org/go/cue/ast"
	"cuelang.org/go/cue/cuecontext"
	"cuelang.org/go/cue/literal"
	"cuelang.org/go/cue/token"
	cuejson "cuelang.org/go/encoding/json"
	"cuelang.org/go/encoding/jsonschema"
)

var (
	c13ccNums = []jnum{"0", "1", "2", "3", "5", "10", "-1", "1.5", "2.5", "0.5", "1.0", "2.0", "3.0", "0.1", "-2.5", "-2.50"}
	c13ccNats = []jnum{"0", "1", "2", "3", "2.0"}
)

type ccGen struct {
	r *Rng
}

func (g *ccGen) value(depth int) jv {
	r := g.r
	switch r.Intn(8) {
	case 0:
		return nil
	case 1:
		return r.Bool()
	case 2, 3:
		return Pick(r, c13ccNums)
	case 4, 5:
		return Pick(r, c13StrPool)
	case 6:
		if depth <= 0 {
			return Pick(r, c13ccNums)
		}
		a := []jv{}
		for i := 0; i < r.Intn(3); i++ {
			a = append(a, g.value(depth-1))
		}
		return a
	}
	if depth <= 0 {
		return Pick(r, c13StrPool)
	}
	o := jobj{}
	for i, k := range []string{"k", "a"} {
		if i < r.Intn(3) {
			o = append(o, jkv{k, g.value(depth - 1)})
		}
	}
	return o
}

func (g *ccGen) sub(depth int) jv {
	r := g.r
	if depth <= 0 || r.Chance(1, 8) {
		if r.Chance(1, 2) {
			return r.Bool()
		}
		return jobj{}
	}
	return g.schema(depth - 1)
}

func (g *ccGen) subs(depth int) []jv {
	a := []jv{}
	for i := 0; i < 1+g.r.Intn(3); i++ {
		a = append(a, g.sub(depth))
	}
	return a
}

// schema: a schema object of the transcribed subset; keyword order shuffled (the phases and the
// in-phase order of the importer matter for the result)
func (g *ccGen) schema(depth int) jv {
	r := g.r
	var kvs []jkv
	add := func(k string, v jv) { kvs = append(kvs, jkv{k, v}) }
	if r.Chance(1, 2) {
		if r.Chance(1, 2) {
			add("type", Pick(r, c13TypeNames))
		} else {
			names := append([]string{}, c13TypeNames...)
			Shuffle(r, names)
			a := []jv{}
			for i := 0; i < 1+r.Intn(3); i++ {
				a = append(a, names[i])
			}
			if r.Chance(1, 10) {
				a = append(a, a[0]) // repeated name ("integer" twice adds `int` twice)
			}
			add("type", a)
		}
	}
	if r.Chance(1, 5) {
		a := []jv{}
		for i := 0; i < 1+r.Intn(4); i++ {
			a = append(a, g.value(1))
		}
		add("enum", a)
	}
	if r.Chance(1, 8) {
		add("const", g.value(1))
	}
	for _, k := range []string{"minimum", "maximum", "exclusiveMinimum", "exclusiveMaximum"} {
		if r.Chance(1, 6) {
			add(k, Pick(r, c13ccNums))
		}
	}
	if r.Chance(1, 8) {
		add("multipleOf", Pick(r, []jnum{"1", "2", "0.5", "1.5", "0.1", "3.0"}))
	}
	for _, k := range []string{"minLength", "maxLength", "minItems", "maxItems", "minContains", "maxContains"} {
		if r.Chance(1, 7) {
			add(k, Pick(r, c13ccNats))
		}
	}
	if r.Chance(1, 7) {
		add("pattern", Pick(r, c13Patterns))
	}
	if r.Chance(1, 8) {
		add("uniqueItems", r.Bool())
	}
	if depth > 0 {
		if r.Chance(1, 6) {
			add("contains", g.sub(depth))
		}
		if r.Chance(1, 6) {
			add("items", g.sub(depth))
		}
		if r.Chance(1, 7) {
			a := []jv{}
			for i := 0; i < r.Intn(3); i++ {
				a = append(a, g.sub(depth))
			}
			add("prefixItems", a)
		}
		for _, k := range []string{"allOf", "anyOf", "oneOf"} {
			if r.Chance(1, 6) {
				add(k, g.subs(depth))
			}
		}
		if r.Chance(1, 6) {
			add("not", g.sub(depth))
		}
		if r.Chance(1, 6) {
			add("if", g.sub(depth))
			if r.Chance(3, 4) {
				add("then", g.sub(depth))
			}
			if r.Chance(1, 2) {
				add("else", g.sub(depth))
			}
		} else if r.Chance(1, 20) {
			add("then", g.sub(depth)) // then without if: ignored
		}
	}
	Shuffle(r, kvs)
	return jobj(kvs)
}

// ---- canonical text of the importer's AST (mirror of Driver/C13.lean ccText) ----

func ccNumText(lit string) string {
	s := lit
	neg := false
	if strings.HasPrefix(s, "-") {
		neg = true
		s = s[1:]
	} else if strings.HasPrefix(s, "+") {
		s = s[1:]
	}
	s = strings.ReplaceAll(s, "_", "")
	exp := 0
	if i := strings.IndexAny(s, "eE"); i >= 0 {
		e, err := strconv.Atoi(strings.TrimPrefix(s[i+1:], "+"))
		if err != nil {
			return "?num:" + lit
		}
		exp = e
		s = s[:i]
	}
	ip, fp := s, ""
	if i := strings.IndexByte(s, '.'); i >= 0 {
		ip, fp = s[:i], s[i+1:]
	}
	m, ok := new(big.Int).SetString(ip+fp, 10)
	if !ok {
		return "?num:" + lit
	}
	if neg {
		m.Neg(m)
	}
	e10 := exp - len(fp)
	den := big.NewInt(1)
	if e10 >= 0 {
		m.Mul(m, new(big.Int).Exp(big.NewInt(10), big.NewInt(int64(e10)), nil))
	} else {
		den.Exp(big.NewInt(10), big.NewInt(int64(-e10)), nil)
	}
	return m.String() + "/" + den.String()
}

func ccStrHex(s string) string { return H(s) }

// number literal, possibly under a unary minus
func ccNumExpr(e ast.Expr) (string, bool) {
	switch x := e.(type) {
	case *ast.BasicLit:
		if x.Kind == token.INT || x.Kind == token.FLOAT {
			return ccNumText(x.Value), true
		}
	case *ast.UnaryExpr:
		if x.Op == token.SUB {
			if b, ok := x.X.(*ast.BasicLit); ok && (b.Kind == token.INT || b.Kind == token.FLOAT) {
				return ccNumText("-" + b.Value), true
			}
		}
		if x.Op == token.ADD {
			return ccNumExpr(x.X)
		}
	case *ast.ParenExpr:
		return ccNumExpr(x.X)
	}
	return "", false
}

func ccNatExpr(e ast.Expr) string {
	if b, ok := e.(*ast.BasicLit); ok && (b.Kind == token.INT || b.Kind == token.FLOAT) {
		return b.Value
	}
	return "?nat"
}

func ccList(es []ast.Expr) string {
	var parts []string
	for _, e := range es {
		if el, ok := e.(*ast.Ellipsis); ok {
			if el.Type == nil {
				parts = append(parts, "...")
			} else if id, ok := el.Type.(*ast.Ident); ok && id.Name == "_" {
				parts = append(parts, "...")
			} else {
				parts = append(parts, "..."+ccAST(el.Type))
			}
			continue
		}
		parts = append(parts, ccAST(e))
	}
	return "[" + strings.Join(parts, ",") + "]"
}

func ccAST(e ast.Expr) string {
	switch x := e.(type) {
	case *ast.ParenExpr:
		return ccAST(x.X)
	case *ast.Ident:
		switch x.Name {
		case "_", "bool", "number", "string", "int", "null":
			return x.Name
		}
		return "?ident:" + x.Name
	case *ast.BasicLit:
		switch x.Kind {
		case token.NULL:
			return "null"
		case token.TRUE:
			return "true"
		case token.FALSE:
			return "false"
		case token.INT, token.FLOAT:
			return ccNumText(x.Value)
		case token.STRING:
			s, err := literal.Unquote(x.Value)
			if err != nil {
				return "?string"
			}
			return `"` + ccStrHex(s) + `"`
		}
		return "?lit"
	case *ast.UnaryExpr:
		if n, ok := ccNumExpr(x); ok {
			return n
		}
		switch x.Op {
		case token.GEQ, token.GTR, token.LEQ, token.LSS:
			if n, ok := ccNumExpr(x.X); ok {
				return x.Op.String() + n
			}
		case token.MAT:
			if b, ok := x.X.(*ast.BasicLit); ok && b.Kind == token.STRING {
				if s, err := literal.Unquote(b.Value); err == nil {
					return `=~"` + ccStrHex(s) + `"`
				}
			}
		}
		return "?unary"
	case *ast.BinaryExpr:
		switch x.Op {
		case token.AND:
			return "(" + ccAST(x.X) + "&" + ccAST(x.Y) + ")"
		case token.OR:
			return "(" + ccAST(x.X) + "|" + ccAST(x.Y) + ")"
		}
		return "?binary"
	case *ast.ListLit:
		return ccList(x.Elts)
	case *ast.StructLit:
		if len(x.Elts) == 1 {
			if _, ok := x.Elts[0].(*ast.Ellipsis); ok {
				return "{...}"
			}
		}
		return "?struct"
	case *ast.CallExpr:
		switch f := x.Fun.(type) {
		case *ast.Ident:
			switch f.Name {
			case "error":
				return "!"
			case "matchN":
				if len(x.Args) == 2 {
					if l, ok := x.Args[1].(*ast.ListLit); ok {
						var parts []string
						for _, a := range l.Elts {
							parts = append(parts, ccAST(a))
						}
						return "mN(" + ccBound(x.Args[0]) + ",[" + strings.Join(parts, ",") + "])"
					}
				}
			case "matchIf":
				if len(x.Args) == 3 {
					return "mIf(" + ccAST(x.Args[0]) + "," + ccAST(x.Args[1]) + "," + ccAST(x.Args[2]) + ")"
				}
			case "close":
				if len(x.Args) == 1 {
					if st, ok := x.Args[0].(*ast.StructLit); ok {
						var parts []string
						for _, d := range st.Elts {
							fd, ok := d.(*ast.Field)
							if !ok || fd.Constraint != token.NOT {
								return "?close"
							}
							name, _, err := ast.LabelName(fd.Label)
							if err != nil {
								return "?close"
							}
							parts = append(parts, `"`+ccStrHex(name)+`"!:`+ccAST(fd.Value))
						}
						return "close{" + strings.Join(parts, ",") + "}"
					}
				}
			}
			return "?call:" + f.Name
		case *ast.SelectorExpr:
			pkg := ""
			if id, ok := f.X.(*ast.Ident); ok {
				pkg = id.Name
			}
			sel := ""
			if id, ok := f.Sel.(*ast.Ident); ok {
				sel = id.Name
			}
			switch pkg + "." + sel {
			case "math.MultipleOf":
				if len(x.Args) == 1 {
					if n, ok := ccNumExpr(x.Args[0]); ok {
						return "mul(" + n + ")"
					}
				}
			case "strings.MinRunes":
				if len(x.Args) == 1 {
					return "minR(" + ccNatExpr(x.Args[0]) + ")"
				}
			case "strings.MaxRunes":
				if len(x.Args) == 1 {
					return "maxR(" + ccNatExpr(x.Args[0]) + ")"
				}
			case "list.MaxItems":
				if len(x.Args) == 1 {
					return "maxI(" + ccNatExpr(x.Args[0]) + ")"
				}
			case "list.UniqueItems":
				if len(x.Args) == 0 {
					return "uniq"
				}
			case "list.MatchN":
				if len(x.Args) == 2 {
					return "lmN(" + ccCountBound(x.Args[0]) + "," + ccAST(x.Args[1]) + ")"
				}
			}
			return "?call:" + pkg + "." + sel
		}
		return "?call"
	}
	return fmt.Sprintf("?%T", e)
}

// first argument of matchN: n or >=n
func ccBound(e ast.Expr) string {
	switch x := e.(type) {
	case *ast.BasicLit:
		if x.Kind == token.INT {
			return x.Value
		}
	case *ast.UnaryExpr:
		if x.Op == token.GEQ {
			if b, ok := x.X.(*ast.BasicLit); ok && b.Kind == token.INT {
				return ">=" + b.Value
			}
		}
	}
	return "?bound"
}

// first argument of list.MatchN: >=lo or >=lo & <=hi
func ccCountBound(e ast.Expr) string {
	switch x := e.(type) {
	case *ast.UnaryExpr:
		if b, ok := x.X.(*ast.BasicLit); ok && b.Kind == token.INT {
			switch x.Op {
			case token.GEQ:
				return ">=" + b.Value
			case token.LEQ:
				return "<=" + b.Value
			}
		}
	case *ast.BinaryExpr:
		if x.Op == token.AND {
			return ccCountBound(x.X) + "&" + ccCountBound(x.Y)
		}
	}
	return "?count"
}

// ccImport runs the real importer on {"type":"object","properties":{"p":S}} and renders field p.
func ccImport(schemaTxt string) (res string) {
	defer func() {
		if p := recover(); p != nil {
			res = "import-panic"
		}
	}()
	ctx := cuecontext.New()
	wrapped := `{"type":"object","properties":{"p":` + schemaTxt + `}}`
	se, err := cuejson.Extract("schema.json", []byte(wrapped))
	if err != nil {
		return "schema-json"
	}
	sv := ctx.BuildExpr(se)
	if sv.Err() != nil {
		return "schema-json-build"
	}
	f, err := jsonschema.Extract(sv, &jsonschema.Config{})
	if err != nil {
		return "import-error:" + c13ErrKind(err)
	}
	var find func(decls []ast.Decl) ast.Expr
	find = func(decls []ast.Decl) ast.Expr {
		for _, d := range decls {
			switch x := d.(type) {
			case *ast.Field:
				if name, _, err := ast.LabelName(x.Label); err == nil && name == "p" {
					return x.Value
				}
			case *ast.EmbedDecl:
				if st, ok := x.Expr.(*ast.StructLit); ok {
					if e := find(st.Elts); e != nil {
						return e
					}
				}
			}
		}
		return nil
	}
	e := find(f.Decls)
	if e == nil {
		return "no-field-p"
	}
	return ccAST(e)
}

func c13RunCC(c *Cfg, r *Rng) {
	n := c.Pick(4000, 40000)
	type item struct {
		txt, got string
		s        jv
	}
	items := make([]item, n)
	for i := range items {
		g := &ccGen{r: r.Sub()}
		var s jv
		if g.r.Chance(1, 40) {
			s = g.r.Bool()
		} else {
			s = g.schema(1 + g.r.Intn(3))
		}
		items[i] = item{txt: renderJV(s), s: s}
	}
	var wg sync.WaitGroup
	ch := make(chan int, 64)
	for w := 0; w < 16; w++ {
		wg.Add(1)
		go func() {
			defer wg.Done()
			for i := range ch {
				items[i].got = ccImport(items[i].txt)
			}
		}()
	}
	for i := range items {
		ch <- i
	}
	close(ch)
	wg.Wait()
	seen := map[string]bool{}
	for _, it := range items {
		if seen[it.txt] {
			c.Count("cc:duplicate")
			continue
		}
		seen[it.txt] = true
		c.Count("cc:cases")
		if strings.HasPrefix(it.got, "import-error") || it.got == "import-panic" || strings.HasPrefix(it.got, "schema-json") {
			// an import-time report (e.g. a constraint for an excluded type): not part of the
			// structural correspondence
			c.Count("cc:" + it.got)
			if it.got == "import-panic" {
				c.Direct(false, "extract-panic", "jsonschema.Extract panicked on "+it.txt, map[string]string{"schema": it.txt})
			}
			continue
		}
		c.Count(fmt.Sprintf("cc:depth:%d", jvSchemaDepth(it.s)))
		if o, ok := it.s.(jobj); ok {
			c.Count(fmt.Sprintf("cc:keywords:%d", len(o)))
			for _, kv := range o {
				c.Count("cc:kw:" + kv.k)
			}
		}
		c.Op("I", "cc "+H(it.txt), it.got)
		c.Case("cc "+it.txt, it.got != "_" && it.got != "!")
	}
}
