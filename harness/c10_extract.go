package main

// C10, reading direction against the Lean model (Model/JsonExtract.lean).
//
//   O  extract <env> <nq> <text>   the ast.Expr json.Extract returns for a document — every label
//        (identifier name or string literal text) and every basic literal's text, in order, with
//        the list/struct structure — byte for byte against `extractModel`; `reject` when Extract
//        returns an error.  <env> = strconv.IsPrint/IsGraphic of the runes involved, <nq> =
//        ast.StringLabelNeedsQuoting of every member name (both are parameters of the model).
//   I  extractdata …               the model's own data claim evaluated: evalData (extractModel
//        text) against normZero (parseJSON text) (`same` expected whenever both are defined).

import (
	"fmt"
	"sort"
	"strconv"
	"strings"
	"unicode/utf8"

	"cuelang.org/go/cue/ast"
	"cuelang.org/go/cue/token"
	cuejson "cuelang.org/go/encoding/json"
)

func c10EnvOf(strs []string) string {
	seen := map[rune]bool{0xFFFD: true}
	for _, s := range strs {
		for _, r := range s {
			seen[r] = true
		}
	}
	rs := make([]int, 0, len(seen))
	for r := range seen {
		rs = append(rs, int(r))
	}
	sort.Ints(rs)
	var sb strings.Builder
	for i, r := range rs {
		if i > 0 {
			sb.WriteByte(',')
		}
		fl := 0
		if strconv.IsPrint(rune(r)) {
			fl |= 1
		}
		if strconv.IsGraphic(rune(r)) {
			fl |= 2
		}
		fmt.Fprintf(&sb, "%d:%d", r, fl)
	}
	return sb.String()
}

func c10CollectStrings(v *jv, strs *[]string, keys map[string]bool) {
	switch v.kind {
	case 's':
		*strs = append(*strs, v.str)
	case 'a', 'o':
		for i, e := range v.elems {
			if v.kind == 'o' {
				*strs = append(*strs, v.keys[i])
				keys[v.keys[i]] = true
			}
			c10CollectStrings(e, strs, keys)
		}
	}
}

// c10AstWords renders the expression json.Extract returned; ok=false on a node a JSON document
// cannot produce.
func c10AstWords(e ast.Expr, sb *strings.Builder) bool {
	sep := func() {
		if sb.Len() > 0 {
			sb.WriteByte(' ')
		}
	}
	switch x := e.(type) {
	case *ast.BasicLit:
		sep()
		switch x.Kind {
		case token.NULL:
			sb.WriteString("n")
		case token.TRUE:
			sb.WriteString("t")
		case token.FALSE:
			sb.WriteString("f")
		case token.INT, token.FLOAT:
			sb.WriteString("N0:" + H(x.Value))
		case token.STRING:
			sb.WriteString("S" + H(x.Value))
		default:
			return false
		}
	case *ast.UnaryExpr:
		lit, ok := x.X.(*ast.BasicLit)
		if !ok || x.Op != token.SUB || (lit.Kind != token.INT && lit.Kind != token.FLOAT) {
			return false
		}
		sep()
		sb.WriteString("N1:" + H(lit.Value))
	case *ast.ListLit:
		sep()
		fmt.Fprintf(sb, "[%d", len(x.Elts))
		for _, el := range x.Elts {
			if !c10AstWords(el, sb) {
				return false
			}
		}
	case *ast.StructLit:
		sep()
		fmt.Fprintf(sb, "{%d", len(x.Elts))
		for _, el := range x.Elts {
			f, ok := el.(*ast.Field)
			if !ok {
				return false
			}
			switch l := f.Label.(type) {
			case *ast.Ident:
				sb.WriteString(" Li" + H(l.Name))
			case *ast.BasicLit:
				if l.Kind != token.STRING {
					return false
				}
				sb.WriteString(" Ls" + H(l.Value))
			default:
				return false
			}
			if !c10AstWords(f.Value, sb) {
				return false
			}
		}
	default:
		return false
	}
	return true
}

func c10ExtractOp(c *Cfg, doc []byte, origin string) {
	if !utf8.Valid(doc) || len(doc) > 20000 {
		return
	}
	var strs []string
	keys := map[string]bool{}
	if t, err := c10GoTree(doc); err == nil {
		c10CollectStrings(t, &strs, keys)
	}
	var nq []string
	for k := range keys {
		b := "0"
		if ast.StringLabelNeedsQuoting(k) {
			b = "1"
		}
		nq = append(nq, H(k)+":"+b)
	}
	sort.Strings(nq)
	nqs := strings.Join(nq, ",")
	if nqs == "" {
		nqs = "-"
	}
	ans := ""
	func() {
		defer func() {
			if e := recover(); e != nil {
				ans = "panic"
			}
		}()
		e, err := cuejson.Extract("x.json", doc)
		if err != nil {
			ans = "reject"
			return
		}
		var sb strings.Builder
		if !c10AstWords(e, &sb) {
			ans = "unexpected-node " + sb.String()
			return
		}
		ans = sb.String()
	}()
	if ans == "reject" {
		c.Count("extract/" + origin + "/reject")
	} else {
		c.Count("extract/" + origin + "/ok")
	}
	c.Case("extract:"+string(doc), len(doc) > 4)
	line := c10EnvOf(strs) + " " + nqs + " " + H(string(doc))
	c.Op("O", "extract "+line, ans)
	if ans != "reject" && !c10LoneSurrogate(doc) && !c.Focus {
		// the model's data claim on this document (known regions answer nodata)
		want := "same"
		_, f, err := c10Analyse(doc)
		if err != nil || f.dupDiff || f.dupSame || c10DocOutOfRange(doc) {
			return
		}
		c.Op("I", "extractdata "+line, want)
	}
}

// some number of the document is outside apd's limits (the decoder rejects it at build time)
func c10DocOutOfRange(doc []byte) bool {
	t, err := c10GoTree(doc)
	if err != nil {
		return false
	}
	out := false
	var rec func(v *jv)
	rec = func(v *jv) {
		if v.kind == '#' && c10OutOfApdRange(v.num) {
			out = true
		}
		for _, e := range v.elems {
			rec(e)
		}
	}
	rec(t)
	return out
}

func c10ExtractModel(c *Cfg, r *Rng) {
	for _, s := range []string{`null`, `true`, ` false `, `0`, `-0`, `-1.50e+3`, `1E400`, `""`, `"a"`, `"0123456789"`, `"0123456789a"`, `"a\nb"`, `"a\\b"`,
		`"long string with\nnewline inside"`, `"\"\"x"`, `"\"\"\"#"`, `"tab\there"`, `"é😀"`, `"\ud800"`, "\"\xef\xbb\xbf\"", `[]`, `{}`, `[[[["deep\nstring value"]]]]`,
		`{"a":1}`, `{"a b":1}`, `{"_a":1}`, `{"#a":1}`, `{"":1}`, `{"0":1}`, `{"a-b":1}`, `{"if":1,"true":2,"null":3}`, `{"é":1}`, `{"a\nb":1}`, `{"a\\":1}`, `{"long label 0123":1}`,
		`{"long\nlabel 0123":{"x":"inner\nmultiline value"}}`, `{"a":1,"a":2}`, `{"a":1,"a":1}`, `{"k":"\"\"\"\n"}`, `{ "a" : [ 1 , 2 ] }`, `[1,]`, `{a:1}`, `"\(x)"`, `1 2`, ``} {
		c10ExtractOp(c, []byte(s), "fixed")
	}
	n := c.Pick(2500, 100000)
	if c.Focus {
		n = c.Pick(1500, 20000)
	}
	for i := 0; i < n; i++ {
		rr := r.Sub()
		doc := c10GenDoc(rr)
		switch rr.Intn(8) {
		case 0:
			c10ExtractOp(c, []byte(c10MutateBytes(rr, string(doc))), "byte-mutated")
		case 1:
			c10ExtractOp(c, []byte(c10CueMutate(rr, string(doc))), "cue-mutated")
		default:
			c10ExtractOp(c, doc, "grammar")
		}
	}
}
