package main

// C19: direct stress of every small shared-state protocol the Lean side models, and the
// "concurrent compilation of let-bearing sources into ONE context, then unify" rounds.
//
//	uid       Runtime.NextUniqueID (index.getNextUniqueID): N goroutines × M calls on one
//	          runtime; the returned ids must be exactly 1..N*M, all distinct
//	imports   AddInst / GetInstanceFromNode / LoadInstance: every goroutine registers its own
//	          (vertex, instance) pairs while others look up; afterwards every pair is intact
//	builtin   LoadBuiltin of the same package from 16 goroutines on a fresh runtime: one vertex
//	builddata SetBuildData / BuildData, types StoreType / LoadType: own keys read back
//	let       G goroutines derive values in one context from sources containing `let X = …`
//	          (CompileString with Scope + FillPath, BuildExpr with Scope + FillPath,
//	          FillPath(path, ast.Expr)); all derived values are unified and the JSON is
//	          compared with the sequential answer (and with the analytic expectation)
//
// Runs in a child process (`-replay proto:<seed>:<scale>:<out.json>`).

import (
	"encoding/json"
	"fmt"
	"os"
	"reflect"
	"sort"
	"strconv"
	"strings"
	"sync"
	"time"

	"cuelang.org/go/cue"
	"cuelang.org/go/cue/ast"
	"cuelang.org/go/cue/build"
	"cuelang.org/go/cue/cuecontext"
	"cuelang.org/go/cue/parser"
	"cuelang.org/go/internal/core/adt"
	"cuelang.org/go/internal/core/runtime"
)

type c19ProtoFail struct {
	Class  string `json:"class"`
	What   string `json:"what"`
	Detail any    `json:"detail"`
}

type c19ProtoOut struct {
	Checks map[string]int `json:"checks"` // predicate evaluations per class
	Fails  []c19ProtoFail `json:"fails"`
}

func (o *c19ProtoOut) check(ok bool, class, what string, detail any) {
	o.Checks[class]++
	if !ok && len(o.Fails) < 12 {
		o.Fails = append(o.Fails, c19ProtoFail{class, what, detail})
	}
}

func c19Par(g int, f func(i int)) bool {
	start := make(chan struct{})
	var wg sync.WaitGroup
	for i := 0; i < g; i++ {
		wg.Add(1)
		go func(i int) {
			defer wg.Done()
			<-start
			f(i)
		}(i)
	}
	close(start)
	return c19WaitTimeout(&wg, 180*time.Second)
}

// c19UniqueIDs: one runtime, g goroutines × m calls.
func c19UniqueIDs(out *c19ProtoOut, g, m int) {
	rt := runtime.New()
	ids := make([][]uint64, g)
	if !c19Par(g, func(i int) {
		loc := make([]uint64, m)
		for j := range loc {
			loc[j] = rt.NextUniqueID()
		}
		ids[i] = loc
	}) {
		out.check(false, "deadlock-unique-id", "concurrent NextUniqueID calls did not finish", nil)
		return
	}
	n := g * m
	seen := make([]uint8, n+2)
	dups, outOfRange := 0, 0
	var first []uint64
	for _, loc := range ids {
		for _, x := range loc {
			if x < 1 || x > uint64(n) {
				outOfRange++
				continue
			}
			if seen[x] != 0 {
				dups++
				if len(first) < 5 {
					first = append(first, x)
				}
			}
			seen[x] = 1
		}
	}
	out.check(dups == 0 && outOfRange == 0, "unique-id-duplicate",
		fmt.Sprintf("Runtime.NextUniqueID handed out the same identifier twice: %d goroutines x %d calls on one runtime, %d duplicates, %d outside 1..%d", g, m, dups, outOfRange, n),
		map[string]any{"goroutines": g, "calls_each": m, "duplicates": dups, "first_duplicated_ids": first})
}

func c19ImportMaps(out *c19ProtoOut, r *Rng, rounds int) {
	for n := 0; n < rounds; n++ {
		rt := runtime.New()
		g := 4 + r.Intn(13)
		per := 20 + r.Intn(60)
		keys := make([][]*adt.Vertex, g)
		insts := make([][]*build.Instance, g)
		for i := range keys {
			for j := 0; j < per; j++ {
				keys[i] = append(keys[i], &adt.Vertex{})
				insts[i] = append(insts[i], &build.Instance{ImportPath: fmt.Sprintf("x/%d/%d", i, j)})
			}
		}
		bad := int32(0)
		var mu sync.Mutex
		if !c19Par(g, func(i int) {
			for j := 0; j < per; j++ {
				rt.AddInst(keys[i][j], insts[i][j])
				rt.SetBuildData(insts[i][j], j)
				k := (i + 1) % g // somebody else's entry: either absent or intact
				if p := rt.GetInstanceFromNode(keys[k][j]); p != nil && p != insts[k][j] {
					mu.Lock()
					bad++
					mu.Unlock()
				}
				if v := rt.LoadInstance(insts[i][j]); v != keys[i][j] {
					mu.Lock()
					bad++
					mu.Unlock()
				}
				if x, ok := rt.BuildData(insts[i][j]); !ok || x != j {
					mu.Lock()
					bad++
					mu.Unlock()
				}
			}
		}) {
			out.check(false, "deadlock-imports", "concurrent AddInst/GetInstanceFromNode/LoadInstance did not finish", nil)
			return
		}
		lost := 0
		for i := range keys {
			for j := range keys[i] {
				if rt.GetInstanceFromNode(keys[i][j]) != insts[i][j] || rt.LoadInstance(insts[i][j]) != keys[i][j] {
					lost++
				}
			}
		}
		out.check(bad == 0 && lost == 0, "imports-lost-update", "an (vertex, instance) registration made under concurrency is missing or wrong afterwards",
			map[string]any{"goroutines": g, "per": per, "wrong_during": bad, "lost_after": lost})
	}
}

func c19Builtin(out *c19ProtoOut, rounds int) {
	pkgs := []string{"strings", "list", "math", "struct", "strconv", "regexp"}
	for n := 0; n < rounds; n++ {
		rt := runtime.New()
		g := 16
		got := make([][]*adt.Vertex, g)
		if !c19Par(g, func(i int) {
			for j := range pkgs {
				got[i] = append(got[i], rt.LoadBuiltin(pkgs[(i+j)%len(pkgs)]))
			}
		}) {
			out.check(false, "deadlock-loadbuiltin", "concurrent LoadBuiltin did not finish", nil)
			return
		}
		ok := true
		for i := range got {
			for j, v := range got[i] {
				if v == nil || v != rt.LoadBuiltin(pkgs[(i+j)%len(pkgs)]) {
					ok = false
				}
			}
		}
		out.check(ok, "loadbuiltin-not-unique", "LoadBuiltin returned different vertices for one builtin package of one runtime", nil)
	}
}

func c19TypeStore(out *c19ProtoOut, r *Rng, rounds int) {
	for n := 0; n < rounds; n++ {
		rt := runtime.New()
		ts := c19MakeTypes(r, 48)
		vs := make([]*adt.Vertex, len(ts))
		for i := range vs {
			vs[i] = &adt.Vertex{}
		}
		bad := int32(0)
		var mu sync.Mutex
		if !c19Par(12, func(i int) {
			for j := i; j < len(ts); j += 12 {
				rt.StoreType(ts[j], vs[j])
				if v, ok := rt.LoadType(ts[j]); !ok || v != vs[j] {
					mu.Lock()
					bad++
					mu.Unlock()
				}
				rt.LoadType(ts[(j+7)%len(ts)])
			}
		}) {
			out.check(false, "deadlock-typecache", "concurrent StoreType/LoadType did not finish", nil)
			return
		}
		for j, t := range ts {
			if v, ok := rt.LoadType(t); !ok || v != vs[j] {
				bad++
			}
		}
		out.check(bad == 0, "typecache-lost", "a StoreType made under concurrency is missing or wrong", map[string]any{"bad": bad, "type0": fmt.Sprint(reflect.TypeOf(0))})
	}
}

// ---- let rounds ----------------------------------------------------------------------

const c19LetShared = "base: 0, r: {...}"

func c19LetSrc(g, k int) string {
	return fmt.Sprintf("let X = base + %d\no_%d_%d: X", 1000*g+k, g, k)
}

// c19LetDerive: goroutine g derives perG values from the shared value, cycling through the
// three ways source text reaches the compiler inside one context.
func c19LetDerive(ctx *cue.Context, shared cue.Value, g, perG int) []cue.Value {
	path := cue.ParsePath("r")
	vs := make([]cue.Value, perG)
	for k := range vs {
		switch (g + k) % 3 {
		case 0:
			vs[k] = shared.FillPath(path, ctx.CompileString(c19LetSrc(g, k), cue.Scope(shared)))
		case 1:
			e, err := parser.ParseExpr("let", "{"+c19LetSrc(g, k)+"}")
			if err != nil {
				panic(err)
			}
			vs[k] = shared.FillPath(path, ctx.BuildExpr(e, cue.Scope(shared)))
		case 2:
			// FillPath compiles the expression itself; `base` is resolved against the
			// struct the expression is filled into, so give it its own
			e, err := parser.ParseExpr("let", fmt.Sprintf("{let X = %d\no_%d_%d: X}", 1000*g+k, g, k))
			if err != nil {
				panic(err)
			}
			vs[k] = shared.FillPath(path, ast.Expr(e))
		}
	}
	return vs
}

func c19LetRender(res [][]cue.Value) (s string) {
	defer func() {
		if e := recover(); e != nil {
			s = "PANIC: " + c19Head(fmt.Sprint(e), 200)
		}
	}()
	var vs []cue.Value
	for _, r := range res {
		vs = append(vs, r...)
	}
	var unifyAll func(vs []cue.Value) cue.Value
	unifyAll = func(vs []cue.Value) cue.Value {
		if len(vs) == 1 {
			return vs[0]
		}
		h := len(vs) / 2
		return unifyAll(vs[:h]).Unify(unifyAll(vs[h:]))
	}
	v := unifyAll(vs)
	if err := v.Validate(cue.Concrete(true)); err != nil {
		return "ERROR: " + c19ErrKinds(err) + " " + c19Head(err.Error(), 300)
	}
	b, err := v.MarshalJSON()
	if err != nil {
		return "ERROR: " + c19ErrKinds(err)
	}
	return string(b)
}

// c19LetExpected: the analytic answer, independent of any run.
func c19LetExpected(g, perG int) string {
	m := map[string]int{}
	for i := 0; i < g; i++ {
		for k := 0; k < perG; k++ {
			m[fmt.Sprintf("o_%d_%d", i, k)] = 1000*i + k
		}
	}
	b, _ := json.Marshal(map[string]any{"base": 0, "r": m})
	return string(b)
}

func c19JSONCanon(s string) string {
	var x any
	if json.Unmarshal([]byte(s), &x) != nil {
		return s
	}
	b, _ := json.Marshal(x) // sorted keys
	return string(b)
}

func c19LetDiff(want, got string) string {
	if !strings.HasPrefix(got, "{") {
		return c19Head(got, 400)
	}
	var w, g map[string]any
	json.Unmarshal([]byte(want), &w)
	json.Unmarshal([]byte(got), &g)
	wr, _ := w["r"].(map[string]any)
	gr, _ := g["r"].(map[string]any)
	var ds []string
	for k, v := range wr {
		if fmt.Sprint(gr[k]) != fmt.Sprint(v) {
			ds = append(ds, fmt.Sprintf("%s: want %v got %v", k, v, gr[k]))
		}
	}
	sort.Strings(ds)
	if len(ds) > 4 {
		ds = ds[:4]
	}
	return strings.Join(ds, "; ")
}

func c19LetRounds(out *c19ProtoOut, rounds, g, perG int) {
	// sequential answer: one goroutine, fresh context
	ctx := cuecontext.New()
	shared := ctx.CompileString(c19LetShared)
	res := make([][]cue.Value, g)
	for i := range res {
		res[i] = c19LetDerive(ctx, shared, i, perG)
	}
	want := c19JSONCanon(c19LetRender(res))
	out.check(want == c19JSONCanon(c19LetExpected(g, perG)), "let-sequential", "the sequential let round does not give the expected value (harness or evaluator problem, not concurrency)",
		map[string]any{"got": c19Head(want, 600)})
	fails := 0
	first := ""
	for n := 0; n < rounds; n++ {
		ctx := cuecontext.New()
		shared := ctx.CompileString(c19LetShared)
		_ = shared.Validate()
		res := make([][]cue.Value, g)
		if !c19Par(g, func(i int) { res[i] = c19LetDerive(ctx, shared, i, perG) }) {
			out.check(false, "deadlock-let", "concurrent compilation in one context did not finish", nil)
			return
		}
		if got := c19JSONCanon(c19LetRender(res)); got != want {
			fails++
			if first == "" {
				first = c19LetDiff(want, got)
			}
		}
	}
	out.check(fails == 0, "conc-let-unify",
		fmt.Sprintf("%d goroutines each compiled %d two-line sources `let X = base + N; o_g_k: X` into ONE context concurrently (CompileString+Scope / BuildExpr+Scope / FillPath(ast.Expr)); the unification of all derived values differs from the sequential answer in %d of %d rounds", g, perG, fails, rounds),
		map[string]any{"shared": c19LetShared, "source_g_k": "let X = base + (1000*g+k)\\no_g_k: X", "goroutines": g, "per_goroutine": perG, "rounds": rounds, "rounds_wrong": fails, "first_difference": first})
	out.Checks["conc-let-unify"] += rounds - 1
}

// c19ProtoChild: spec = "<seed>:<scale>:<out.json>"; scale 1 = quick, 10 = thorough
func c19ProtoChild(spec string) {
	ps := strings.SplitN(spec, ":", 3)
	seed, _ := strconv.ParseUint(ps[0], 10, 64)
	scale, _ := strconv.Atoi(ps[1])
	r := NewRng(seed).Sub()
	out := &c19ProtoOut{Checks: map[string]int{}}
	for i := 0; i < 2*scale; i++ {
		c19UniqueIDs(out, 16, 100000)
	}
	c19UniqueIDs(out, 2, 400000)
	c19ImportMaps(out, r, 10*scale)
	c19Builtin(out, 3*scale)
	c19TypeStore(out, r, 10*scale)
	c19LetRounds(out, 120*scale, 16, 6)
	b, _ := json.Marshal(out)
	os.WriteFile(ps[2], b, 0o666)
}
