package main

// C15 extension (session 3): correspondence streams for the newly modelled code —
// listFilesInDir / CheckDir on real trees (ops listdir, checkdir), Create including its sort
// (op createfull), escape.go (ops escapev, escapelit, unescape) — and the direct predicates
// zip-vs-list / zip-vs-dir ("the three ways of checking agree" on an accepted archive).

import (
	"bytes"
	"fmt"
	"os"
	"path/filepath"
	"sort"
	"strings"

	"cuelang.org/go/internal/mod/semver"
	"cuelang.org/go/mod/module"
	"cuelang.org/go/mod/modzip"
)

// c15TreeTokens renders a real directory in the driver's pre-order token form; entries in
// os.ReadDir order (sorted by file name, which is what filepath.WalkDir uses).
func c15TreeTokens(dir string, names *[]string) ([]string, bool) {
	ents, err := os.ReadDir(dir)
	if err != nil {
		return nil, false
	}
	var out []string
	for _, e := range ents {
		*names = append(*names, e.Name())
		switch {
		case e.IsDir():
			sub, ok := c15TreeTokens(filepath.Join(dir, e.Name()), names)
			if !ok {
				return nil, false
			}
			out = append(out, "d,"+H(e.Name()))
			out = append(out, sub...)
			out = append(out, ")")
		case e.Type().IsRegular():
			info, err := e.Info()
			if err != nil {
				return nil, false
			}
			out = append(out, fmt.Sprintf("f,%s,%d", H(e.Name()), info.Size()))
		default:
			out = append(out, "i,"+H(e.Name()))
		}
	}
	return out, true
}

var c15WalkKinds = map[string]bool{"vcs": true, "submoduledir": true, "vendored": true, "notregular": true}

// c15DirOps compares CheckDir on a real tree with the model of listFilesInDir + checkFiles.
func c15DirOps(c *Cfg, root string, dcf modzip.CheckedFiles) {
	var names []string
	toks, ok := c15TreeTokens(root, &names)
	if !ok || len(toks) == 0 || len(toks) > 400 {
		c.Count("dirop/skipped")
		return
	}
	rel := func(p string) string {
		x, err := filepath.Rel(root, p)
		if err != nil {
			return p
		}
		return filepath.ToSlash(x)
	}
	var valid, listed, cfOmitted, invalid, walk []string
	for _, p := range dcf.Valid {
		valid = append(valid, rel(p))
		listed = append(listed, H(rel(p)))
	}
	for _, e := range dcf.Invalid {
		invalid = append(invalid, rel(e.Path))
		listed = append(listed, H(rel(e.Path)))
	}
	for _, e := range dcf.Omitted {
		k := c15WhyKind(e.Err)
		if c15WalkKinds[k] {
			walk = append(walk, H(rel(e.Path))+":"+k)
		} else {
			cfOmitted = append(cfOmitted, rel(e.Path))
			listed = append(listed, H(rel(e.Path)))
		}
	}
	sort.Strings(listed)
	j := func(xs []string) string {
		if len(xs) == 0 {
			return "."
		}
		return strings.Join(xs, ",")
	}
	line := strings.Join(toks, " ")
	// the walk: which files are listed (as a set) and what is omitted, in walk order, with kinds
	if !c.Focus {
		c.Op("I", "listdir "+line, "F="+j(listed)+";W="+j(walk))
	}
	// the report of CheckDir (valid in walk order, the file-list check's own omissions, invalid)
	b := func(x bool) string {
		if x {
			return "true"
		}
		return "false"
	}
	ans := "V=" + c15HexList(valid) + ";O=" + c15HexList(cfOmitted) + ";I=" + c15HexList(invalid) +
		";S=" + b(dcf.SizeError != nil) + ";N=" + b(dcf.NoModError != nil)
	c.Op("O", "checkdir "+c15Uni(names...)+" "+line, ans)
	c.Count(fmt.Sprintf("dirop/walk-omitted=%d", min(len(walk), 3)))
	for _, w := range walk {
		c.Count("dirop/why/" + w[strings.LastIndex(w, ":")+1:])
	}
}

var c15VCS = map[string]bool{".bzr": true, ".git": true, ".hg": true, ".svn": true}

// c15AgreeZip: an archive that CheckZip accepts (no directory entries, vendored names,
// .hg_archival.txt, sizes < 2^63) is accepted by CheckFiles on the same names/sizes with the
// same valid list (theorem C15_three_agree, here on the implementation), and — when Unzip
// succeeded and no directory component is a VCS name — CheckDir on the extracted tree
// reports the same valid set.
func c15AgreeZip(c *Cfg, obs []c15Obs, cf modzip.CheckedFiles, cerr error, target string, uerr error) {
	if cerr != nil {
		return
	}
	var list []c15File
	var words []string
	vcs := false
	for _, o := range obs {
		if o.name == "" || strings.HasSuffix(o.name, "/") || o.declared >= 1<<63 ||
			strings.HasPrefix(o.name, "cue.mod/vendor/") || o.name == ".hg_archival.txt" {
			c.Count("agree/not-plain")
			return
		}
		parts := strings.Split(o.name, "/")
		for _, p := range parts[:len(parts)-1] {
			if c15VCS[p] {
				vcs = true
			}
		}
		f := c15File{path: o.name, kind: 'f', size: int64(o.declared), clen: -1}
		list = append(list, f)
		words = append(words, c15FEntWord(f))
	}
	lcf, lerr := modzip.CheckFiles(list, c15FIO{})
	same := lerr == nil && strings.Join(lcf.Valid, "\x00") == strings.Join(cf.Valid, "\x00") &&
		len(lcf.Omitted) == 0 && len(lcf.Invalid) == 0
	c.Direct(same, "zip-vs-list", "CheckZip accepted an archive that CheckFiles does not accept with the same valid list",
		map[string]any{"files": words, "zip_valid": cf.Valid, "list_valid": lcf.Valid, "list_err": fmt.Sprint(lerr)})
	c.Count("agree/zip-vs-list")
	if uerr != nil || vcs {
		return
	}
	dcf, derr := modzip.CheckDir(target)
	var dv []string
	for _, p := range dcf.Valid {
		x, _ := filepath.Rel(target, p)
		dv = append(dv, filepath.ToSlash(x))
	}
	zv := append([]string{}, cf.Valid...)
	sort.Strings(dv)
	sort.Strings(zv)
	c.Direct(derr == nil && strings.Join(dv, "\x00") == strings.Join(zv, "\x00"), "zip-vs-dir",
		"CheckDir on the tree Unzip wrote does not report the archive's valid files",
		map[string]any{"files": words, "zip_valid": zv, "dir_valid": dv, "dir_err": fmt.Sprint(derr)})
	c.Count("agree/zip-vs-dir")
}

// c15CreateFullOp: Create on the list as given (unsorted); the model sorts with the comparator
// as written and must produce the same entries in the same order.
func c15CreateFullOp(c *Cfg, fsz []c15File, ans string) {
	var words, paths []string
	for _, f := range fsz {
		words = append(words, fmt.Sprintf("%s,%d", c15FEntWord(f), f.contentLen()))
		paths = append(paths, f.path)
	}
	if len(fsz) > 12 {
		// slices.SortFunc is stable only up to 12 elements (insertion sort); with equal paths the
		// order matters to checkFiles, so longer lists with duplicate paths are not comparable
		seen := map[string]bool{}
		for _, f := range fsz {
			if seen[f.path] {
				c.Count("createfull/skipped: more than 12 entries with duplicate paths")
				return
			}
			seen[f.path] = true
		}
	}
	c.Op("O", "createfull "+c15Uni(paths...)+" "+strings.Join(words, " "), ans)
	sorted := sort.SliceIsSorted(fsz, func(i, j int) bool { return fsz[i].path < fsz[j].path })
	c.Count(fmt.Sprintf("createfull/input-sorted=%v", sorted))
}

// c15EscapeExt: escape.go against the literal model, and the specification's unescape applied
// to the implementation's output.
func c15EscapeExt(c *Cfg, r *Rng) {
	if c.Focus {
		return
	}
	b := func(x bool) string {
		if x {
			return "1"
		}
		return "0"
	}
	vs := []string{"v1.0.0", "v1.0.0-RC1", "v1.2.3-A.b.C", "v1.0.0-a!b", "v1.0.0-é", "v1.0.0-CON", "v1.0.0-con.x", "v1.0.0+B",
		"v1.0.0-", "v1", "1.0.0", "v1.0.0-a.", "v1.0.0-a..b", "v1.0.0-\xff", "v01.0.0", "v1.0.0-01", "v1.0.0-A_B", "v1.0.0-x y", ""}
	for i := 0; i < c.Pick(1500, 20000); i++ {
		var sb strings.Builder
		sb.WriteString(Pick(r, []string{"v1.0.0-", "v0.0.0-", "v2.3.4+", "v1.0.0-a+", "v1.", ""}))
		for k := 0; k < r.Intn(8); k++ {
			sb.WriteString(Pick(r, []string{"a", "A", "Z", "z", "0", "9", "-", ".", "B", "m", "!", "é", "_", "+", "CON", "nul", " ", "K", "K"}))
		}
		vs = append(vs, sb.String())
	}
	for _, v := range vs {
		sv := semver.IsValid(v)
		esc, err := module.EscapeVersion(v)
		ans := "err"
		if err == nil {
			ans = "ok " + H(esc)
		}
		c.Op("I", "escapev "+c15Uni(v)+" "+b(sv)+" "+H(v), ans)
		c.Count(fmt.Sprintf("escapev/semver=%v ok=%v upper=%v", sv, err == nil, strings.ToLower(v) != v))
		if err == nil {
			// the specification's inverse applied to what the implementation wrote
			c.Op("O", "unescape "+H(esc), "ok "+H(v))
			c.Direct(!strings.ContainsAny(esc, "ABCDEFGHIJKLMNOPQRSTUVWXYZ"), "escape-upper", "escaped version contains an upper-case letter", v)
		}
	}
	ps := []string{"example.com", "example.com/a/b", "foo.bar/x_y-z", "Example.com", "example.com/A", "a.b/c!d", "a.b", "a", "a.b/", "/a.b", "a.b//c", "a.b/é", "x.y/z@v1"}
	for i := 0; i < c.Pick(300, 3000); i++ {
		var sb strings.Builder
		sb.WriteString(Pick(r, []string{"a.b", "example.com", "x.io", "A.b", "a"}))
		for k := 0; k < r.Intn(4); k++ {
			sb.WriteString("/" + Pick(r, []string{"a", "b-c", "d_e", "f.g", "H", "i__j", "k--l", "m.", ".n", "0", "é", "x!y"}))
		}
		ps = append(ps, sb.String())
	}
	for _, p := range ps {
		esc, err := module.EscapePath(p)
		if err != nil {
			c.Count("escapepath/rejected")
			continue
		}
		// EscapePath = CheckPathWithoutVersion (not modelled) then escapeString
		c.Op("I", "escapelit "+H(p), "ok "+H(esc))
		c.Op("O", "unescape "+H(esc), "ok "+H(p))
		c.Direct(!strings.Contains(esc, "@"), "escape-at", "escaped module path contains '@' (the cache directory name would be ambiguous)", p)
		c.Count("escapepath/ok")
	}
}

// c15OrderPredicate: the verdict of CheckFiles must not depend on the order of the list
// (the property: the ways of checking reject the same files; a list is a set of files).  The
// list is checked again reversed: acceptance must be the same and, when accepted, the valid
// SET must be the same.  Known finding checkfiles-dup-path-order: two non-directory entries
// with the same path; the one met first is reported "omitted" (a symlink / irregular file after
// it entered the collision map, or any file omitted for its path: vendored, nested module, …)
// and the INVALID report of the other one ("multiple entries", or its Lstat error) is dropped by
// addError's per-path de-duplication.  The class is given only when a duplicated path has an
// entry of kind symlink / irregular / lstat-error, exactly one order is accepted, and the
// accepting order lists that path as omitted.  Any other disagreement is checkfiles-order.
func c15OrderPredicate(c *Cfg, fsz []c15File, cf modzip.CheckedFiles, words []string) {
	if len(fsz) < 2 {
		return
	}
	rev := make([]c15File, len(fsz))
	for i, f := range fsz {
		rev[len(fsz)-1-i] = f
	}
	rcf, _ := modzip.CheckFiles(rev, c15FIO{})
	set := func(v []string) string {
		x := append([]string{}, v...)
		sort.Strings(x)
		return strings.Join(x, "\x00")
	}
	errA, errB := cf.Err() != nil, rcf.Err() != nil
	same := errA == errB && (errA || set(cf.Valid) == set(rcf.Valid))
	class := "checkfiles-order"
	cnt := map[string]int{}
	irr := map[string]bool{}
	for _, f := range fsz {
		if f.kind == 'd' {
			continue
		}
		cnt[f.path]++
		// an entry that is reported for a reason of its KIND: symlink / irregular (omitted after
		// it entered the collision map) or Lstat error (invalid, tested before every path rule)
		if f.kind == 'l' || f.kind == 'o' || f.kind == 'e' {
			irr[f.path] = true
		}
	}
	// the accepting order must have reported the duplicated path as omitted (that report is
	// what swallows the other entry's error)
	acc := cf
	if errA {
		acc = rcf
	}
	omitted := map[string]bool{}
	for _, e := range acc.Omitted {
		omitted[e.Path] = true
	}
	dup := false
	for p, n := range cnt {
		if n >= 2 {
			dup = true
			if irr[p] && errA != errB && omitted[p] {
				class = "checkfiles-dup-path-order"
			}
		}
	}
	c.Direct(same, class, "CheckFiles gives a different verdict / valid set for the same files in reverse order",
		map[string]any{"files": words, "err": errA, "err_reversed": errB, "valid": cf.Valid, "valid_reversed": rcf.Valid})
	c.Count(fmt.Sprintf("order/dup-paths=%v same=%v", dup, same))
}

// c15WitnessDupOrder replays the witness of C15_checkFiles_perm_false on the implementation:
// with two entries of the same path the verdict of CheckFiles depends on their order (both
// orders are also compared with the model by the checkfiles ops).
func c15WitnessDupOrder(c *Cfg) {
	mod := c15File{path: "cue.mod/module.cue", kind: 'f', size: 1, clen: -1}
	pipe := c15File{path: "b", kind: 'o', size: 4, clen: -1}
	reg := c15File{path: "b", kind: 'f', size: 7, clen: -1}
	a := c15CheckFilesOps(c, []c15File{mod, pipe, reg})
	b := c15CheckFilesOps(c, []c15File{mod, reg, pipe})
	c.Count(fmt.Sprintf("dup-order/witness: pipe-first err=%v, regular-first err=%v", a.Err() != nil, b.Err() != nil))
	// the same through Create: the archive is written and the regular file b is not in it
	var buf bytes.Buffer
	cerr := modzip.Create(&buf, c15Mod, []c15File{mod, pipe, reg}, c15FIO{})
	c.Direct(cerr != nil, "checkfiles-dup-path-order", "Create accepted a list with two entries for path b and silently dropped the regular file",
		[]string{c15FEntWord(mod), c15FEntWord(pipe), c15FEntWord(reg)})
}

// c15JoinCases: filepath.Join(dir, name) as Unzip calls it, against the byte-level model
// (fpjoin), and the theorem C15_confined_bytes on the implementation: for a clean absolute dir
// and an accepted name the join is literally dir + "/" + name.
func c15JoinCases(c *Cfg, r *Rng) {
	if c.Focus {
		return
	}
	dirs := []string{"/T", "/a/b", "/tmp/x y/é", "/", "", "rel/x", "/a/../b", "/a/", "/a//b", ".", "..", "/a/./b", "/.."}
	n := c.Pick(3000, 40000)
	for i := 0; i < n; i++ {
		dir := Pick(r, dirs)
		name := c15Path(r, r.Intn(4))
		got := filepath.Join(dir, name)
		c.Op("I", "fpjoin "+H(dir)+" "+H(name), H(got))
		accepted := module.CheckFilePath(name) == nil
		cleanAbs := strings.HasPrefix(dir, "/") && dir != "/" && filepath.Clean(dir) == dir
		if accepted && cleanAbs {
			c.Direct(got == dir+"/"+name, "join-not-literal", "filepath.Join(dir, name) of an accepted name is not dir + \"/\" + name", []string{dir, name})
		}
		c.Count(fmt.Sprintf("join/accepted=%v clean-abs-dir=%v changed-by-clean=%v", accepted, cleanAbs, got != dir+"/"+name))
	}
	// the witness of C15_no_trailing_space_false on the implementation (an observation)
	for _, w := range []string{".. ", "a ", "CON .txt", "x/.. /y"} {
		c.Count(fmt.Sprintf("join/trailing-space %q accepted=%v", w, module.CheckFilePath(w) == nil))
		c15PathOps(c, w)
	}
}
