package main

// Position-free structural dump of a CUE syntax tree for C08: every node kind, every
// token-valued / string-valued / boolean field, every child in order, and every comment
// group with its attachment (owner node kind, Position, Doc, Line) and text.
// Positions (token.Pos, which also carry the relative white space) are skipped; string
// literals are dumped by their unquoted VALUE (re-indenting a multi-line string is white
// space), number literals by their numeric value.

import (
	"fmt"
	"reflect"
	"strings"

	"cuelang.org/go/cue/ast"
	"cuelang.org/go/cue/literal"
	"cuelang.org/go/cue/token"
	"github.com/cockroachdb/apd/v3"
)

type dumpOpts struct {
	resolve    bool // also dump what every identifier reference is bound to (scope kind + distance)
	simplify   bool // compare modulo the documented -s simplifications
	noComments bool
	eraseParen bool // drop ParenExpr nodes (programmatic ASTs: parentheses only group)
}

var (
	posType   = reflect.TypeOf(token.NoPos)
	tokType   = reflect.TypeOf(token.ILLEGAL)
	nodeType  = reflect.TypeOf((*ast.Node)(nil)).Elem()
	skipField = map[string]bool{"Scope": true, "Node": true, "Imports": true, "Unresolved": true,
		"Filename": true, "LanguageVersion": true}
)

type dumper struct {
	sb    strings.Builder
	opts  dumpOpts
	stack []ast.Node // ancestors of the node being dumped
}

// binding describes what the parser resolved an identifier to, without positions: the kind of the
// declaring node, the kind of its scope and how many struct/file scopes lie between the reference and
// that scope.  (-s may rewrite labels; it must not re-bind a reference.)
func (d *dumper) binding(x *ast.Ident) string {
	if x.Node == nil {
		return ""
	}
	kind := func(n ast.Node) string {
		t := reflect.TypeOf(n)
		if t.Kind() == reflect.Ptr {
			t = t.Elem()
		}
		return t.Name()
	}
	up := 0
	found := false
	for i := len(d.stack) - 1; i >= 0; i-- {
		if d.stack[i] == x.Scope {
			found = true
			break
		}
		switch d.stack[i].(type) {
		case *ast.StructLit, *ast.File:
			up++
		}
	}
	if x.Scope == nil {
		return " ->" + kind(x.Node)
	}
	if !found {
		return " ->" + kind(x.Node) + " in " + kind(x.Scope)
	}
	return fmt.Sprintf(" ->%s in %s up=%d", kind(x.Node), kind(x.Scope), up)
}

func dumpNode(n ast.Node, o dumpOpts) string {
	d := &dumper{opts: o}
	d.node(n, 0)
	return d.sb.String()
}

func (d *dumper) line(depth int, format string, a ...any) {
	for i := 0; i < depth; i++ {
		d.sb.WriteByte(' ')
	}
	fmt.Fprintf(&d.sb, format, a...)
	d.sb.WriteByte('\n')
}

func litValue(x *ast.BasicLit) string {
	switch x.Kind {
	case token.STRING:
		s, err := literal.Unquote(x.Value)
		if err != nil {
			return "raw:" + x.Value
		}
		kind := "s"
		if strings.HasPrefix(strings.TrimLeft(x.Value, "#"), "'") {
			kind = "b"
		}
		return fmt.Sprintf("%s:%q", kind, s)
	case token.INT, token.FLOAT:
		var ni literal.NumInfo
		if err := literal.ParseNum(x.Value, &ni); err != nil {
			return "rawnum:" + x.Value
		}
		var dec apd.Decimal
		if err := ni.Decimal(&dec); err != nil {
			return "rawnum:" + x.Value
		}
		var r apd.Decimal
		r.Reduce(&dec)
		k := "float"
		if ni.IsInt() {
			k = "int"
		}
		return k + ":" + r.Text('E')
	}
	return x.Kind.String() + ":" + x.Value
}

// commentClass is the position class of a comment group on its owner node: a doc comment,
// a comment on the line where the node ends, before the node's first token, or after/inside it.
func commentClass(cg *ast.CommentGroup) string {
	switch {
	case cg.Doc:
		return "doc"
	case cg.Line:
		return "line"
	case cg.Position == 0:
		return "before"
	}
	return "after"
}

// commentSide is the position class compared between input and output: before the owner's first
// token (doc comments included) or after it (trailing comments on the same line included; whether
// a trailing comment counts as "same line" depends on what follows it in the file).
func commentSide(cg *ast.CommentGroup) string {
	if cg.Doc || cg.Position == 0 && !cg.Line {
		return "before"
	}
	return "after"
}

type commentPlace struct {
	text, owner, class, side string
}

// commentPlaces lists every comment group with its owner node kind and position class, in
// tree order.
func commentPlaces(root ast.Node) []commentPlace {
	var out []commentPlace
	ast.Walk(root, func(n ast.Node) bool {
		if cg, ok := n.(*ast.CommentGroup); ok {
			_ = cg
			return false
		}
		for _, cg := range ast.Comments(n) {
			var texts []string
			for _, c := range cg.List {
				texts = append(texts, strings.TrimRight(c.Text, " \t\r"))
			}
			t := reflect.TypeOf(n)
			if t.Kind() == reflect.Ptr {
				t = t.Elem()
			}
			out = append(out, commentPlace{strings.Join(texts, "\n"), t.Name(), commentClass(cg), commentSide(cg)})
		}
		return true
	}, nil)
	return out
}

// commentMoveTag names the first comment whose attachment differs between two trees:
// "<Owner>.<class>-to-<Owner>.<class>", "lost", or "split-or-merged".
func commentMoveTag(a, b ast.Node) string {
	pa, pb := commentPlaces(a), commentPlaces(b)
	idx := map[string][]commentPlace{}
	for _, p := range pb {
		idx[p.text] = append(idx[p.text], p)
	}
	for _, p := range pa {
		l := idx[p.text]
		if len(l) == 0 {
			// the group may have been split or merged with a neighbour
			joined := ""
			for _, q := range pb {
				joined += q.text + "\n"
			}
			for _, line := range strings.Split(p.text, "\n") {
				if !strings.Contains(joined, line) {
					return "lost"
				}
			}
			return "regrouped-from-" + p.owner + "." + p.class
		}
		q := l[0]
		idx[p.text] = l[1:]
		if q.owner != p.owner || q.side != p.side {
			return p.owner + "." + p.class + "-to-" + q.owner + "." + q.class
		}
	}
	return "other"
}

func (d *dumper) comments(n ast.Node, depth int) {
	if d.opts.noComments {
		return
	}
	for _, cg := range ast.Comments(n) {
		var texts []string
		for _, c := range cg.List {
			texts = append(texts, strings.TrimRight(c.Text, " \t\r"))
		}
		d.line(depth, "#comment %s %q", commentSide(cg), texts)
	}
}

func (d *dumper) interpolation(x *ast.Interpolation, depth int) {
	d.line(depth, "Interpolation")
	d.comments(x, depth+1)
	first, last := x.Quotes()
	info, nStart, nEnd, err := literal.ParseQuotes(first.Value, last.Value)
	for i, e := range x.Elts {
		if i%2 == 1 {
			d.node(e, depth+1)
			continue
		}
		l, ok := e.(*ast.BasicLit)
		if !ok || err != nil {
			d.node(e, depth+1)
			continue
		}
		s := l.Value
		if i == 0 {
			if nStart <= len(s) {
				s = s[nStart:]
			}
		} else if strings.HasPrefix(s, ")") {
			s = s[1:]
		}
		_ = nEnd
		// QuoteInfo.Unquote stops at the closing quotes resp. at the interpolation opener `\(`
		// (this is how internal/core/compile reads the fragments)
		v, uerr := info.Unquote(s)
		if uerr != nil {
			d.line(depth+1, "frag raw:%q", l.Value)
		} else {
			d.line(depth+1, "frag %q", v)
		}
		d.comments(l, depth+2)
	}
}

func (d *dumper) node(n ast.Node, depth int) {
	if n == nil || reflect.ValueOf(n).IsNil() {
		d.line(depth, "nil")
		return
	}
	d.stack = append(d.stack, n)
	defer func() { d.stack = d.stack[:len(d.stack)-1] }()
	switch x := n.(type) {
	case *ast.Ident:
		b := ""
		if d.opts.resolve {
			b = d.binding(x)
		}
		d.line(depth, "Ident %s%s", x.Name, b)
		d.comments(x, depth+1)
		return
	case *ast.BasicLit:
		if (x.Kind == token.INT || x.Kind == token.FLOAT) && strings.HasPrefix(x.Value, "-") {
			// a negative number built as ONE literal (programmatic ASTs) is `-` applied to the number
			d.line(depth, "UnaryExpr")
			d.line(depth+1, ".Op -")
			d.line(depth+1, ".X")
			cp := *x
			cp.Value = x.Value[1:]
			d.line(depth+2, "BasicLit %s", litValue(&cp))
			d.comments(x, depth+3)
			return
		}
		d.line(depth, "BasicLit %s", litValue(x))
		d.comments(x, depth+1)
		return
	case *ast.Interpolation:
		d.interpolation(x, depth)
		return
	case *ast.CommentGroup:
		if d.opts.noComments {
			return
		}
		var texts []string
		for _, c := range x.List {
			texts = append(texts, strings.TrimRight(c.Text, " \t\r"))
		}
		d.line(depth, "CommentGroupDecl %q", texts)
		return
	case *ast.ParenExpr:
		if d.opts.eraseParen {
			d.node(x.X, depth)
			return
		}
		// `((x))` is printed `(x)` by both formatters (theorem C08_parser_tree: the only tree
		// change on parser-shaped trees is this collapse): compare modulo doubled parentheses
		if in, ok := x.X.(*ast.ParenExpr); ok {
			if len(ast.Comments(x)) == 0 {
				d.node(in, depth)
				return
			}
			cp := *in
			ast.SetComments(&cp, append(append([]*ast.CommentGroup{}, ast.Comments(x)...), ast.Comments(in)...))
			d.node(&cp, depth)
			return
		}
	case *ast.Ellipsis:
		if d.opts.simplify {
			if id, ok := x.Type.(*ast.Ident); ok && id.Name == "_" {
				d.line(depth, "Ellipsis")
				d.comments(x, depth+1)
				d.line(depth+1, ".Type nil")
				return
			}
		}
	case *ast.StructLit:
		if d.opts.simplify {
			if elts, changed := simplifyOpenElts(x.Elts); changed {
				cp := *x
				cp.Elts = elts
				d.generic(&cp, depth)
				return
			}
		}
	case *ast.File:
		// an empty `import ()` group carries nothing: the v2 formatter drops it
		decls := x.Decls
		if d.opts.simplify {
			if el, changed := simplifyOpenElts(decls); changed {
				decls = el
			}
		}
		keep := decls[:0:0]
		for _, dcl := range decls {
			if id, ok := dcl.(*ast.ImportDecl); ok && len(id.Specs) == 0 && len(ast.Comments(id)) == 0 {
				continue
			}
			keep = append(keep, dcl)
		}
		if len(keep) != len(x.Decls) || d.opts.simplify {
			cp := *x
			cp.Decls = keep
			d.generic(&cp, depth)
			return
		}
	case *ast.Field:
		if d.opts.simplify {
			// "a": v  ≡  a: v  when the label needs no quoting
			if bl, ok := x.Label.(*ast.BasicLit); ok && bl.Kind == token.STRING {
				if s, err := literal.Unquote(bl.Value); err == nil && !ast.StringLabelNeedsQuoting(s) {
					cp := *x
					id := ast.NewIdent(s)
					ast.SetComments(id, ast.Comments(bl))
					cp.Label = id
					d.generic(&cp, depth)
					return
				}
			}
		}
	}
	d.generic(n, depth)
}

func (d *dumper) generic(n ast.Node, depth int) {
	v := reflect.ValueOf(n)
	if v.Kind() == reflect.Ptr {
		v = v.Elem()
	}
	t := v.Type()
	d.line(depth, "%s", t.Name())
	d.comments(n, depth+1)
	if t.Kind() != reflect.Struct {
		return
	}
	for i := 0; i < t.NumField(); i++ {
		f := t.Field(i)
		if !f.IsExported() || f.Anonymous || skipField[f.Name] || f.Type == posType {
			continue
		}
		fv := v.Field(i)
		d.value(f.Name, fv, depth+1)
	}
}

func (d *dumper) value(name string, fv reflect.Value, depth int) {
	switch {
	case fv.Type() == tokType:
		d.line(depth, ".%s %s", name, fv.Interface().(token.Token).String())
	case fv.Kind() == reflect.String:
		d.line(depth, ".%s %q", name, fv.String())
	case fv.Kind() == reflect.Bool:
		d.line(depth, ".%s %v", name, fv.Bool())
	case fv.Kind() == reflect.Int || fv.Kind() == reflect.Int8 || fv.Kind() == reflect.Int32 || fv.Kind() == reflect.Int64:
		d.line(depth, ".%s %d", name, fv.Int())
	case fv.Kind() == reflect.Slice:
		d.line(depth, ".%s [%d]", name, fv.Len())
		for j := 0; j < fv.Len(); j++ {
			d.value("-", fv.Index(j), depth+1)
		}
	case fv.Kind() == reflect.Interface || fv.Kind() == reflect.Ptr:
		if fv.IsNil() {
			d.line(depth, ".%s nil", name)
			return
		}
		if n, ok := fv.Interface().(ast.Node); ok {
			d.line(depth, ".%s", name)
			d.node(n, depth+1)
			return
		}
		d.line(depth, ".%s ?%s", name, fv.Type())
	default:
		d.line(depth, ".%s ?%s", name, fv.Type())
	}
}

// simplifyOpenElts is the documented -s rewrite of the v2 formatter on a declaration list:
// `[_]: _`, `[string]: _` (without attributes) and `..._` are written `...`, which is moved to the end
// of the list; several comment-less `...` are one.  Comments stay on the rewritten element.
func simplifyOpenElts(elts []ast.Decl) ([]ast.Decl, bool) {
	var rest, open []ast.Decl
	changed := false
	for i, e := range elts {
		var el *ast.Ellipsis
		switch y := e.(type) {
		case *ast.Ellipsis:
			if id, ok := y.Type.(*ast.Ident); y.Type == nil || ok && id.Name == "_" {
				el = &ast.Ellipsis{}
				ast.SetComments(el, ast.Comments(y))
				if y.Type != nil {
					changed = true
				}
			}
		case *ast.Field:
			if isAnyPattern(y) && len(y.Attrs) == 0 {
				el = &ast.Ellipsis{}
				ast.SetComments(el, ast.Comments(y))
				changed = true
			}
		}
		if el == nil {
			rest = append(rest, e)
			continue
		}
		if i != len(elts)-1 {
			changed = true
		}
		if len(ast.Comments(el)) == 0 && len(open) > 0 && len(ast.Comments(open[len(open)-1])) == 0 {
			changed = true
			continue
		}
		open = append(open, el)
	}
	if !changed {
		return elts, false
	}
	return append(rest, open...), true
}

// firstDiff returns a short description of the first differing line of two dumps.
func firstDiff(a, b string) string {
	la, lb := strings.Split(a, "\n"), strings.Split(b, "\n")
	for i := 0; i < len(la) || i < len(lb); i++ {
		var x, y string
		if i < len(la) {
			x = la[i]
		}
		if i < len(lb) {
			y = lb[i]
		}
		if x != y {
			ctx := ""
			if i > 0 {
				ctx = strings.TrimSpace(la[i-1]) + " / "
			}
			return fmt.Sprintf("line %d: %s%q vs %q", i, ctx, strings.TrimSpace(x), strings.TrimSpace(y))
		}
	}
	return "equal"
}
