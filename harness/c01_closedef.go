package main

// C01 — shape K: a close() call lexically inside a definition whose argument has a
// struct-valued field (`#B: close({c: {}})`, `#B: {x: close({c: {}})}`), and the counterfactual
// the class `closedness-of-struct-nested-in-close-call-inside-definition-depends-on-order` is
// keyed by: with every such close(E) replaced by E the two arrangements must agree.
//
// The finding (unchanged tree): `#B: close({c: {}}); w: {c: {a: _}} & #B` accepts w.c.a although
// the definition closes `c` recursively; with `w` declared before `#B`: `w.c.a: field not
// allowed`. Without the close() call (`#B: {c: {}}`) both orders reject the field.

import (
	"strings"

	"cuelang.org/go/cue/ast"
	"cuelang.org/go/cue/ast/astutil"
)

func c1isDefLabel(l ast.Label) bool {
	id, ok := l.(*ast.Ident)
	return ok && (strings.HasPrefix(id.Name, "#") || strings.HasPrefix(id.Name, "_#"))
}

func c1isCloseCall(n ast.Node) (*ast.CallExpr, bool) {
	c, ok := n.(*ast.CallExpr)
	if !ok || len(c.Args) != 1 {
		return nil, false
	}
	id, ok := c.Fun.(*ast.Ident)
	return c, ok && id.Name == "close"
}

func c1hasStructField(e ast.Expr) bool {
	s, ok := e.(*ast.StructLit)
	if !ok {
		return false
	}
	found := false
	ast.Walk(s, func(n ast.Node) bool {
		if f, ok := n.(*ast.Field); ok {
			if _, ok := f.Value.(*ast.StructLit); ok {
				found = true
			}
		}
		return !found
	}, nil)
	return found
}

// c1closeInDef walks the definitions of the program; with strip it replaces every close(E)
// inside a definition by E. Reports whether a close() call with a struct-valued field in its
// argument was seen inside a definition.
func c1closeInDef(src string, strip bool) (string, bool) {
	f, err := c1parse(src)
	if err != nil {
		return src, false
	}
	seen := false
	ast.Walk(f, func(n ast.Node) bool {
		fl, ok := n.(*ast.Field)
		if !ok || !c1isDefLabel(fl.Label) {
			return true
		}
		fl.Value = astutil.Apply(fl.Value, func(c astutil.Cursor) bool {
			if call, ok := c1isCloseCall(c.Node()); ok {
				if c1hasStructField(call.Args[0]) {
					seen = true
				}
				if strip {
					c.Replace(call.Args[0])
				}
			}
			return true
		}, nil).(ast.Expr)
		return false
	}, nil)
	if !strip || !seen {
		return src, seen
	}
	t, err := c1print(f)
	if err != nil {
		return src, false
	}
	return t, true
}

func c1hasCloseInDef(src string) bool {
	_, ok := c1closeInDef(src, false)
	return ok
}

const c1clsK = "closedness-of-struct-nested-in-close-call-inside-definition-depends-on-order"

// c1closeInDefRule: the pair differs only by field-not-allowed errors (error vs value, closed
// flags / Allows probes, children of the erroneous node) AND agrees once the close() calls
// inside definitions are removed.
func (x *c1runner) closeInDefRule(p c1prog, texts []string) bool {
	if !c1hasCloseInDef(p.src) {
		return false
	}
	base, ok1 := c1EvalTimeout([]string{p.src}, x.timeout)
	res, ok2 := c1EvalTimeout(texts, x.timeout)
	if !ok1 || !ok2 || base.err != "" || res.err != "" || base.info == nil || res.info == nil {
		return false
	}
	nErr := 0
	for _, d := range c1Diffs(base.info.paths, res.info.paths) {
		sa, sb := c1probeRe.ReplaceAllString(d.a, ""), c1probeRe.ReplaceAllString(d.b, "")
		switch {
		case d.kind == "err-vs-value":
			nErr++
		case d.kind == "absent":
		case d.kind == "value" && c1flagRe.ReplaceAllString(sa, "") == c1flagRe.ReplaceAllString(sb, ""):
		default:
			return false
		}
	}
	if nErr == 0 {
		return false
	}
	sp, ok := c1closeInDef(p.src, true)
	if !ok {
		return false
	}
	var sq []string
	for _, t := range texts {
		s, _ := c1closeInDef(t, true)
		sq = append(sq, s)
	}
	a, ok1 := c1EvalTimeout([]string{sp}, x.timeout)
	b, ok2 := c1EvalTimeout(sq, x.timeout)
	return ok1 && ok2 && a.err == "" && b.err == "" && a.canon == b.canon
}
