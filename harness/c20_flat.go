package main

// C20 — the flat family: packages made only of (nested) fields with scalar values and
// scalar-valued `[string]:` pattern constraints, no references.  For these the conjunct
// multiset at every path can be read off the syntax, each conjunct is abstracted to a
// ⟨value, default⟩ pair of atom sets over a finite universe, and the Lean model
// (Model/Trim.lean `finalMask`) is the judge:
//
//   I  final <conjuncts>           the model's default-resolved value of the vertex equals
//                                  the real evaluator's (fidelity of the value model)
//   O  red <before> <after>        what trim left at this path has the same final value,
//                                  and the field still exists — each removal is an
//                                  instance of `redundant` (implementation's claim: "ok")
//
// The abstraction of ONE expression to atom sets asks the real evaluator which universe
// atoms unify with it (trusted harness code); combining conjuncts, defaults, absence and
// pattern conjuncts is the model's business.

import (
	"fmt"
	"sort"
	"strings"
	"sync"

	"cuelang.org/go/cue"
	"cuelang.org/go/cue/ast"
	"cuelang.org/go/cue/cuecontext"
	"cuelang.org/go/cue/format"
)

// Universe: one representative per class of values that the vocabulary can tell apart.
var c20atoms = []string{
	"-5", "0", "1", "2", "3", "50", // ints
	"-5.5", "0.5", "1.5", "2.5", "50.5", "0.0", "1.0", "2.0", "3.0", // floats
	`"a"`, `"b"`, `"zz"`, "true", "false", "null", "{}", "[]", "'x'",
}

var c20flatVocab = []string{
	"0", "1", "2", "3", `"a"`, `"b"`, "true", "false", "null", "1.5",
	"int", "float", "number", "string", "bool", "_",
	">1", ">=1", "<2", "<=2", "!=1", ">0 & <3", "int & >=2",
	"1 | 2", "1 | 2 | 3", `"a" | "b"`, "int | string", "1 | string",
	"*1 | int", "*2 | int", "int | *1", "*1 | 2 | 3", "*1 | *2 | int", `*"a" | string`, `*"b" | "a"`,
	"*1 | string", "*null | int", "*true | bool", "*1 | >=0",
}

type c20abs struct{ v, d uint32 }

type c20flatCtx struct {
	mu    sync.Mutex
	ctx   *cue.Context
	atoms []cue.Value
	cache map[string]c20abs
}

func newC20flatCtx() *c20flatCtx {
	f := &c20flatCtx{ctx: cuecontext.New(), cache: map[string]c20abs{}}
	for _, a := range c20atoms {
		f.atoms = append(f.atoms, f.ctx.CompileString(a))
	}
	return f
}

// maskOf: which atoms unify with v (v from ANY context is re-rendered through syntax).
func (f *c20flatCtx) maskOfValue(v cue.Value) uint32 {
	var m uint32
	for i, a := range f.atoms {
		u := v.Unify(a)
		if u.Err() == nil && u.Validate() == nil {
			m |= 1 << uint(i)
		}
	}
	return m
}

// abstract one expression (source text) to ⟨value, default⟩ atom sets.
func (f *c20flatCtx) abstract(expr string) (c20abs, bool) {
	f.mu.Lock()
	defer f.mu.Unlock()
	if a, ok := f.cache[expr]; ok {
		return a, true
	}
	// (as a field value: Value.Default on a bare top-level expression reports no default)
	v := f.ctx.CompileString("x: " + expr).LookupPath(cue.ParsePath("x"))
	if v.Err() != nil {
		return c20abs{}, false
	}
	var a c20abs
	a.v = f.maskOfValue(v)
	if d, has := v.Default(); has {
		a.d = f.maskOfValue(d)
	} else {
		a.d = a.v
	}
	f.cache[expr] = a
	return a, true
}

type c20flatConj struct {
	expr    string
	pattern bool
}

// c20flatCollect reads the conjunct multiset per path off the syntax. ok=false when the
// package leaves the flat fragment.
func c20flatCollect(p c20Pkg) (paths map[string][]c20flatConj, ok bool) {
	fs, err := c20parse(p)
	if err != nil {
		return nil, false
	}
	paths = map[string][]c20flatConj{}
	patterns := map[string][]c20flatConj{} // prefix → pattern conjuncts for every field below it
	ok = true
	var walk func(prefix string, decls []ast.Decl)
	walk = func(prefix string, decls []ast.Decl) {
		for _, d := range decls {
			switch x := d.(type) {
			case *ast.Package:
			case *ast.Field:
				if x.Constraint != 0 {
					ok = false
					return
				}
				switch l := x.Label.(type) {
				case *ast.Ident:
					path := prefix + "." + l.Name
					if st, isStruct := x.Value.(*ast.StructLit); isStruct {
						paths[path] = append(paths[path], c20flatConj{expr: "{}"})
						walk(path, st.Elts)
					} else {
						b, err := format.Node(x.Value)
						if err != nil {
							ok = false
							return
						}
						paths[path] = append(paths[path], c20flatConj{expr: string(b)})
					}
				case *ast.ListLit: // [string]: e
					if len(l.Elts) != 1 {
						ok = false
						return
					}
					if id, isID := l.Elts[0].(*ast.Ident); !isID || id.Name != "string" {
						ok = false
						return
					}
					if _, isStruct := x.Value.(*ast.StructLit); isStruct {
						ok = false
						return
					}
					b, err := format.Node(x.Value)
					if err != nil {
						ok = false
						return
					}
					patterns[prefix] = append(patterns[prefix], c20flatConj{expr: string(b), pattern: true})
				default:
					ok = false
					return
				}
			default:
				ok = false
				return
			}
		}
	}
	for _, f := range fs {
		walk("", f.Decls)
	}
	if !ok {
		return nil, false
	}
	for path := range paths {
		i := strings.LastIndex(path, ".")
		paths[path] = append(paths[path], patterns[path[:i]]...)
	}
	return paths, true
}

// maskOfForeign abstracts a value that lives in another cue.Context: it is re-rendered
// through its syntax first (values of different runtimes must not be unified).
func (f *c20flatCtx) maskOfForeign(v cue.Value) (m uint32, ok bool) {
	defer func() {
		if r := recover(); r != nil {
			ok = false
		}
	}()
	n := v.Syntax(cue.Raw())
	e, isExpr := n.(ast.Expr)
	if !isExpr {
		return 0, false
	}
	f.mu.Lock()
	defer f.mu.Unlock()
	w := f.ctx.BuildExpr(e)
	if w.Err() != nil {
		return 0, false
	}
	return f.maskOfValue(w), true
}

// marked counts the conjuncts that carry a default mark.
func (f *c20flatCtx) marked(cs []c20flatConj) int {
	n := 0
	for _, c := range cs {
		if a, ok := f.abstract(c.expr); ok && a.d != a.v {
			n++
		}
	}
	return n
}

func (f *c20flatCtx) encode(cs []c20flatConj) (string, bool) {
	if len(cs) == 0 {
		return "-", true
	}
	parts := make([]string, 0, len(cs))
	for _, c := range cs {
		a, ok := f.abstract(c.expr)
		if !ok {
			return "", false
		}
		k := "n"
		if c.pattern {
			k = "p"
		}
		parts = append(parts, fmt.Sprintf("%d.%d.%s", a.v, a.d, k))
	}
	sort.Strings(parts)
	return strings.Join(parts, ","), true
}

var c20flatOnce sync.Once
var c20flatShared *c20flatCtx

func c20flatCtxShared() *c20flatCtx {
	c20flatOnce.Do(func() { c20flatShared = newC20flatCtx() })
	return c20flatShared
}

// c20GenFlat: every field gets a target atom and (mostly) declarations that admit it, so
// that most packages evaluate without error and the declarations overlap.
func c20GenFlat(r *Rng) c20Pkg {
	fc := c20flatCtxShared()
	nfiles := 1 + r.Intn(3)
	bodies := make([][]string, nfiles)
	add := func(s string) { i := r.Intn(nfiles); bodies[i] = append(bodies[i], s) }
	nf := 1 + r.Intn(4)
	fieldDecls := func(path string) {
		t := uint(r.Intn(21)) // a scalar atom
		var cands []string
		for _, e := range c20flatVocab {
			if a, ok := fc.abstract(e); ok && a.v&(1<<t) != 0 {
				cands = append(cands, e)
			}
		}
		if len(cands) == 0 || r.Chance(1, 15) {
			cands = c20flatVocab
		}
		n := 1 + r.Intn(4)
		base := Pick(r, cands)
		for i := 0; i < n; i++ {
			e := base
			if r.Chance(3, 5) {
				e = Pick(r, cands)
			}
			if r.Chance(1, 6) && t < 21 {
				e = c20atoms[t] // the concrete value itself
			}
			add(fmt.Sprintf("%s: %s", path, e))
		}
	}
	for i := 0; i < nf; i++ {
		name := fmt.Sprintf("x%d", i)
		if r.Chance(1, 3) {
			for j := 0; j < 1+r.Intn(3); j++ {
				fieldDecls(fmt.Sprintf("%s: f%d", name, j))
			}
			if r.Chance(1, 3) {
				add(fmt.Sprintf("%s: [string]: %s", name, Pick(r, []string{"_", "number | string | bool | null", "_", "int | string | bool | null | float"})))
			}
			if r.Chance(1, 3) {
				add(fmt.Sprintf("%s: {}", name))
			}
		} else {
			fieldDecls(name)
			if r.Chance(1, 6) {
				// a pattern that happens to be as specific as one of the declarations
				add(fmt.Sprintf("[string]: %s", Pick(r, []string{"_", "_", "number | string | bool | null | {...}"})))
			}
		}
	}
	var p c20Pkg
	for i, b := range bodies {
		p.Names = append(p.Names, fmt.Sprintf("f%d.cue", i))
		p.Srcs = append(p.Srcs, "package p\n\n"+strings.Join(b, "\n")+"\n")
	}
	return p
}

func c20FlatFamily(c *Cfg, r *Rng) {
	fc := c20flatCtxShared()
	// fidelity of the abstraction on the vocabulary itself: one conjunct, one vertex
	for _, e := range c20flatVocab {
		if enc, ok := fc.encode([]c20flatConj{{expr: e}}); ok {
			v := fc.ctx.CompileString("x: " + e).LookupPath(cue.ParsePath("x"))
			d, _ := v.Default()
			c.Op("I", "final "+enc, fmt.Sprint(fc.maskOfValue(d)))
		}
	}
	n := c.Pick(300, 6000)
	var cases []*c20Case
	for i := 0; i < n; i++ {
		cases = append(cases, &c20Case{origin: fmt.Sprintf("flat:%d", i), pkg: c20GenFlat(r.Sub()), feats: map[string]bool{"flat-family": true}})
	}
	c20RunCases(c, cases, false)
	for _, cs := range cases {
		res := cs.res
		if res == nil || res.skipped != "" || len(res.trimmed.Names) == 0 {
			continue
		}
		before, ok1 := c20flatCollect(cs.pkg)
		after, ok2 := c20flatCollect(res.trimmed)
		if !ok1 || !ok2 {
			c.Count("flat/outside-fragment")
			continue
		}
		// real evaluation of the ORIGINAL, abstracted per path
		l, err := c20Load(cs.pkg)
		if err != nil {
			continue
		}
		paths := make([]string, 0, len(before))
		for p := range before {
			paths = append(paths, p)
		}
		sort.Strings(paths)
		for _, p := range paths {
			encB, ok := fc.encode(before[p])
			if !ok {
				continue
			}
			if fc.marked(before[p]) > 1 {
				// several marked disjunctions at one vertex: the evaluator's default
				// handling is order dependent there (C04, known deviation from the
				// spec's pair algebra) — left to the direct predicates
				c.Count("flat/paths-skipped-multi-default")
				continue
			}
			rv := l.val.LookupPath(cue.ParsePath(strings.TrimPrefix(p, ".")))
			impl := "absent"
			if rv.Exists() {
				d, _ := rv.Default()
				m, ok := fc.maskOfForeign(d)
				if !ok {
					c.Count("flat/paths-skipped-unrenderable")
					continue
				}
				impl = fmt.Sprint(m)
			}
			c.Op("I", "final "+encB, impl)
			encA, ok := fc.encode(after[p])
			if !ok {
				continue
			}
			c.Count("flat/paths")
			if encA != encB {
				c.Count("flat/paths-with-removed-conjuncts")
			}
			c.OpTag("O", "flat-removal-not-redundant", "red "+encB+" "+encA, "ok")
		}
		for p := range after {
			if _, ok := before[p]; !ok {
				c.Direct(false, "flat-new-path", "trim created a path that did not exist: "+p, cs.pkg.String())
			}
		}
	}
}
