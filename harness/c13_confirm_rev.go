package main

// C13: confirmation for REVERSE divergences (oracle(Generate(Extract s), j) != oracle(s, j)).
//
// A reverse divergence is attributed by EXPERIMENT on the real Extract + Generate:
//  (a) `reverse-of:<class>`: after the forward transformations that remove the known importer
//      defects (c13_xform.go) the round trip is exact for this instance — the generated schema
//      only rendered CUE that was already wrong;
//  (b) `reverse-generate:definitions`: after inlining $defs/$ref the round trip is exact (with
//      definitions the CUE root is a struct holding them; Generate types it as object or drops
//      the embedded scalar constraint);
//  (c) `reverse-generate:<keyword>`: after deleting every occurrence of ONE keyword family from
//      the source schema the round trip is exact — the generator is lossy for exactly that keyword
//      in this context (additionalProperties: a schema value is replaced by true, false is deleted).
// "Exact" = the oracle judges s' and Generate(Extract(s')) alike on the instance; the pair is
// emitted as an untagged `agree` op.  Anything else stays untagged and is a violation.

import (
	"fmt"
	"os"
	"strings"
)

// only the keyword families for which the generator is KNOWN to be lossy are tried; a lossy round
// trip that needs any other keyword deleted stays unexplained (= a violation)
var c13RevDeleteOrder = []string{"additionalProperties", "required", "patternProperties", "propertyNames", "contains", "const-object"}

func xDeleteKeyword(k string) func(s, i jv) (jv, jv) {
	return func(s, i jv) (jv, jv) {
		return mapSchemas(s, func(o jobj) jobj {
			switch k {
			case "additionalProperties":
				out := jobj{}
				for _, e := range o {
					if e.k == k {
						if _, isObj := e.v.(jobj); isObj {
							out = append(out, jkv{k, true})
						}
						continue
					}
					out = append(out, e)
				}
				return out
			case "if":
				return without(o, "if", "then", "else")
			case "const-object":
				// const / enum with an object value (close({"a"!: …}): required fields)
				out := jobj{}
				for _, e := range o {
					if (e.k == "const" || e.k == "enum") && valueHasObject(e.v) {
						continue
					}
					out = append(out, e)
				}
				return out
			}
			return without(o, k)
		}), i
	}
}

type c13RevAttempt struct {
	class string
	probe *c13Case
	ans   []string
}

type c13RevPending struct {
	cs       *c13Case
	fail     []int
	attempts []*c13RevAttempt
	base     func(s, i jv) (jv, jv) // known defects removed, definitions inlined
}

func (p *c13RevPending) add(cs *c13Case, class string, f func(s, i jv) (jv, jv), probes *[]*c13Case) {
	maxInst := cs.insts[p.fail[0]]
	for _, k := range p.fail {
		if jvDepth(cs.insts[k]) > jvDepth(maxInst) {
			maxInst = cs.insts[k]
		}
	}
	s2, _ := f(cs.schema, maxInst)
	s2 = nestAllOf(s2)
	changed := !sameJV(s2, cs.schema)
	pc := &c13Case{schema: s2, schemaTxt: renderJV(s2)}
	for _, k := range p.fail {
		_, j2 := f(cs.schema, cs.insts[k])
		t := renderJV(j2)
		if t != cs.instTxt[k] {
			changed = true
		}
		pc.insts = append(pc.insts, j2)
		pc.instTxt = append(pc.instTxt, t)
	}
	if !changed || len(pc.schemaTxt) > 6000 {
		return
	}
	pc.probe = true
	p.attempts = append(p.attempts, &c13RevAttempt{class: class, probe: pc})
	*probes = append(*probes, pc)
}

func c13RevEvaluate(c *Cfg, o *c13Oracle, pend []*c13RevPending, probes []*c13Case) {
	if len(probes) == 0 {
		return
	}
	c13RunWorkers(c, probes)
	// a source that still has $defs / $ref gets the spurious root-level "type":"object" of its
	// generated schema removed (the `definitions` cause, see (b0)); the class then says so
	for _, p := range pend {
		for _, a := range p.attempts {
			if a.ans != nil || a.probe.importErr != "" || a.probe.genTxt == "" {
				continue
			}
			if hasKw(a.probe.schema, "$defs") || hasKw(a.probe.schema, "$ref") {
				if g, err := parseJV(a.probe.genTxt); err == nil {
					if root, ok := g.(jobj); ok {
						if t, ok := root.get("type"); ok && t == "object" {
							a.probe.genTxt = renderJV(without(root, "type"))
							a.class = "reverse-generate:definitions"
						}
					}
				}
			}
		}
	}
	var lines []string
	for _, p := range pend {
		for _, a := range p.attempts {
			if a.ans != nil || a.probe.importErr != "" || a.probe.genTxt == "" {
				continue
			}
			sh, gh := H(a.probe.schemaTxt), H(a.probe.genTxt)
			for _, it := range a.probe.instTxt {
				lines = append(lines, "agree "+sh+" "+gh+" "+H(it))
			}
		}
	}
	ans := o.ask(lines)
	n := 0
	for _, p := range pend {
		for _, a := range p.attempts {
			if a.ans != nil || a.probe.importErr != "" || a.probe.genTxt == "" {
				if a.ans == nil {
					a.ans = []string{}
				}
				continue
			}
			a.ans = ans[n : n+len(a.probe.instTxt)]
			n += len(a.probe.instTxt)
		}
	}
	for _, p := range pend {
		cs := p.cs
		for idx, k := range p.fail {
			if cs.revClass[k] != "" {
				continue
			}
			for _, a := range p.attempts {
				if len(a.ans) > idx && a.ans[idx] == "same" {
					cs.revClass[k] = a.class
					cs.revConfirm = append(cs.revConfirm, [3]string{a.probe.schemaTxt, a.probe.genTxt, a.probe.instTxt[idx]})
					c.Count("confirmed:" + a.class)
					break
				}
			}
		}
	}
}

func c13ConfirmReverse(c *Cfg, o *c13Oracle, cases []*c13Case) {
	if o == nil {
		return
	}
	var pend []*c13RevPending
	var probes []*c13Case
	for _, cs := range cases {
		if cs.judged == nil || cs.genTxt == "" || c13ReverseSkipped(cs) {
			continue
		}
		var fail []int
		for k := range cs.instTxt {
			j := cs.judged[k]
			if isVerdict(j.os) && isVerdict(j.og) && j.os != j.og {
				fail = append(fail, k)
			}
		}
		if len(fail) == 0 {
			continue
		}
		cs.revClass = make([]string, len(cs.instTxt))
		// (a0) the generated schema says exactly what the REAL importer says for this instance
		// (Og == I) and the importer's divergence from the oracle has a confirmed root cause: the
		// reverse divergence is that forward defect, rendered faithfully
		var rest []int
		for _, k := range fail {
			if cs.class != nil && cs.class[k] != "" && cs.judged[k].og == cs.verdicts[k] {
				cs.revClass[k] = "reverse-of:" + cs.class[k]
				c.Count("confirmed:reverse-of:" + cs.class[k])
			} else {
				rest = append(rest, k)
			}
		}
		fail = rest
		if len(fail) == 0 {
			continue
		}
		p := &c13RevPending{cs: cs, fail: fail}
		// (a) the known importer defects removed
		var applied []c13Xform
		for _, x := range c13Xforms(cs.insts[fail[0]]) {
			ok := true
			switch x.needs {
			case "matchIf-bottom-arg":
				ok = strings.Contains(cs.flags, "matchIf-bottom-arg")
			case "has-closed-struct":
				ok = hasCloser(cs.schema)
			case "recursive-ref":
				ok = false // inlining is attempt (b)
			case "contains-standalone-differs":
				ok = false // the contains rewrite needs its mechanism probe; not used here
			}
			if !ok || x.class == "matchIf-eager-bottom" && len(applied) > 0 && applied[len(applied)-1].class == "matchIf-eager-bottom" {
				continue // (only the double-negation form of the if/then/else transformation)
			}
			s2, j2 := x.fn(cs.schema, cs.insts[fail[0]])
			if !sameJV(s2, cs.schema) || !sameJV(j2, cs.insts[fail[0]]) || (x.class == "allOf-member-without-constraints" && !sameJV(nestAllOf(cs.schema), cs.schema)) {
				applied = append(applied, x)
			}
		}
		if len(applied) > 0 {
			name := applied[0].class
			if cs.class != nil && cs.class[fail[0]] != "" {
				name = cs.class[fail[0]]
			}
			p.add(cs, "reverse-of:"+name, func(s, i jv) (jv, jv) {
				for _, x := range applied {
					s, i = x.fn(s, i)
				}
				return s, i
			}, &probes)
		}
		// (b) definitions inlined; (a)+(b) together
		norm := func(s, i jv) (jv, jv) {
			for _, x := range applied {
				s, i = x.fn(s, i)
			}
			return s, i
		}
		p.base = norm
		if hasKw(cs.schema, "$defs") || hasKw(cs.schema, "$ref") {
			d := 0
			for _, k := range fail {
				if x := jvDepth(cs.insts[k]); x > d {
					d = x
				}
			}
			unfold := xUnfoldWith(d+2, 150)
			p.add(cs, "reverse-generate:definitions", unfold, &probes)
			both := func(s, i jv) (jv, jv) { s, i = norm(s, i); return unfold(s, i) }
			if len(applied) > 0 {
				p.add(cs, "reverse-generate:definitions", both, &probes)
			}
		}
		pend = append(pend, p)
	}
	if len(pend) == 0 {
		return
	}
	// (b0) cheapest first: with $defs / $ref in the source the CUE root is a struct that holds the
	// definitions next to the embedded schema, and Generate adds a root-level "type":"object".
	// If the generated schema is exact once that single spurious keyword is removed, that is the
	// cause (oracle only, no second import needed).
	{
		var lines []string
		type ref struct {
			p   *c13RevPending
			idx int
			g2  string
		}
		var refs []ref
		for _, p := range pend {
			cs := p.cs
			if !(hasKw(cs.schema, "$defs") || hasKw(cs.schema, "$ref")) {
				continue
			}
			g, err := parseJV(cs.genTxt)
			if err != nil {
				continue
			}
			root, ok := g.(jobj)
			if !ok {
				continue
			}
			if t, ok := root.get("type"); !ok || t != "object" {
				continue
			}
			g2 := renderJV(without(root, "type"))
			for idx, k := range p.fail {
				lines = append(lines, "agree "+H(cs.schemaTxt)+" "+H(g2)+" "+H(cs.instTxt[k]))
				refs = append(refs, ref{p, idx, g2})
			}
		}
		ans := o.ask(lines)
		for i, r := range refs {
			if ans[i] == "same" {
				cs := r.p.cs
				k := r.p.fail[r.idx]
				cs.revClass[k] = "reverse-generate:definitions"
				cs.revConfirm = append(cs.revConfirm, [3]string{cs.schemaTxt, r.g2, cs.instTxt[k]})
				c.Count("confirmed:reverse-generate:definitions")
			}
		}
		// drop what is fully explained
		var rest []*c13RevPending
		keep := map[*c13Case]bool{}
		for _, p := range pend {
			left := false
			for _, k := range p.fail {
				if p.cs.revClass[k] == "" {
					left = true
				}
			}
			if left {
				rest = append(rest, p)
				for _, a := range p.attempts {
					keep[a.probe] = true
				}
			}
		}
		pend = rest
		var pr []*c13Case
		for _, x := range probes {
			if keep[x] {
				pr = append(pr, x)
			}
		}
		probes = pr
	}
	c13RevEvaluate(c, o, pend, probes)
	// (c) one keyword family deleted — only for what is still unexplained; the usual suspects
	// first, the rest only if needed
	stage := func(prev []*c13RevPending, keys []string) []*c13RevPending {
		var probes []*c13Case
		var next []*c13RevPending
		for _, p := range prev {
			var left []int
			for _, k := range p.fail {
				if p.cs.revClass[k] == "" {
					left = append(left, k)
				}
			}
			if len(left) == 0 {
				continue
			}
			q := &c13RevPending{cs: p.cs, fail: left, base: p.base}
			present := map[string]bool{}
			for _, k := range c13Keywords(p.cs.schema) {
				present[k] = true
			}
			present["const-object"] = hasCloser(p.cs.schema)
			for _, k := range keys {
				if present[k] {
					del := xDeleteKeyword(k)
					base := p.base
					q.add(p.cs, "reverse-generate:"+k, func(s, i jv) (jv, jv) { s, i = base(s, i); return del(s, i) }, &probes)
				}
			}
			next = append(next, q)
		}
		c13RevEvaluate(c, o, next, probes)
		return next
	}
	pend = stage(pend, c13RevDeleteOrder)
	// several lossy keywords at once: the usual suspects deleted together (class: the first present)
	{
		var probes []*c13Case
		var next []*c13RevPending
		for _, p := range pend {
			var left []int
			for _, k := range p.fail {
				if p.cs.revClass[k] == "" {
					left = append(left, k)
				}
			}
			if len(left) == 0 {
				continue
			}
			q := &c13RevPending{cs: p.cs, fail: left, base: p.base}
			first := ""
			for _, k := range c13RevDeleteOrder {
				if first == "" && (hasKw(p.cs.schema, k) || (k == "const-object" && hasCloser(p.cs.schema))) {
					first = k
				}
			}
			if first != "" {
				base := p.base
				q.add(p.cs, "reverse-generate:"+first, func(s, i jv) (jv, jv) {
					s, i = base(s, i)
					for _, k := range c13RevDeleteOrder {
						s, i = xDeleteKeyword(k)(s, i)
					}
					return s, i
				}, &probes)
			}
			next = append(next, q)
		}
		c13RevEvaluate(c, o, next, probes)
		pend = next
	}
	for _, p := range pend {
		for idx, k := range p.fail {
			if p.cs.revClass[k] == "" {
				c.Count("unconfirmed-reverse-divergence")
				if os.Getenv("C13_DEBUG") != "" {
					fmt.Fprintf(os.Stderr, "UNCONFIRMED-REV %s ;; %s impl=%s os=%s og=%s\n", p.cs.schemaTxt, p.cs.instTxt[k], p.cs.verdicts[k], p.cs.judged[k].os, p.cs.judged[k].og)
					for _, a := range p.attempts {
						an := "-"
						if len(a.ans) > idx {
							an = a.ans[idx]
						}
						fmt.Fprintf(os.Stderr, "    %s err=%s ans=%s  %.300s ;; G %.300s\n", a.class, a.probe.importErr, an, a.probe.schemaTxt, a.probe.genTxt)
					}
				}
			}
		}
	}
}
