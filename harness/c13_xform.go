package main

// C13: targeted transformations used to CONFIRM the root cause of a forward divergence.
//
// A failing pair (schema s, instance j) — importer verdict != oracle verdict — is attributed
// to a known root cause only if a transformation that removes exactly that cause (and is
// specification-preserving, except where noted) yields a pair (s', j') on which the REAL
// importer agrees with the oracle.  The confirming pair is emitted as an untagged O op, so the
// check re-verifies it.  Everything a transformation builds with allOf goes through
// nestAllOf, so that the transformations never trip over the allOf counting defect themselves.

import (
	"fmt"
	"math/big"
)

// mapSchemas rewrites every schema object of s bottom-up.
func mapSchemas(s jv, f func(o jobj) jobj) jv {
	o, ok := s.(jobj)
	if !ok {
		return s
	}
	out := make(jobj, 0, len(o))
	for _, e := range o {
		switch {
		case c13SchemaKw[e.k]:
			out = append(out, jkv{e.k, mapSchemas(e.v, f)})
		case c13SchemaList[e.k]:
			if a, ok := e.v.([]jv); ok {
				b := make([]jv, len(a))
				for i, x := range a {
					b[i] = mapSchemas(x, f)
				}
				out = append(out, jkv{e.k, b})
			} else {
				out = append(out, e)
			}
		case c13SchemaMap[e.k]:
			if m, ok := e.v.(jobj); ok {
				b := make(jobj, len(m))
				for i, x := range m {
					b[i] = jkv{x.k, mapSchemas(x.v, f)}
				}
				out = append(out, jkv{e.k, b})
			} else {
				out = append(out, e)
			}
		default:
			out = append(out, e)
		}
	}
	return f(out)
}

func without(o jobj, keys ...string) jobj {
	out := jobj{}
	for _, e := range o {
		drop := false
		for _, k := range keys {
			if e.k == k {
				drop = true
			}
		}
		if !drop {
			out = append(out, e)
		}
	}
	return out
}

// an always-true schema that HAS constraints in the importer's sense (matchN(0,[matchN(0,[_])]))
func alwaysTrueConstrained() jv { return jobj{{"not", jobj{{"not", jobj{}}}}} }

// addAllOf appends members to o's allOf (creating it).
func addAllOf(o jobj, members ...jv) jobj {
	out := jobj{}
	done := false
	for _, e := range o {
		if e.k == "allOf" {
			if a, ok := e.v.([]jv); ok {
				out = append(out, jkv{"allOf", append(append([]jv{}, a...), members...)})
				done = true
				continue
			}
		}
		out = append(out, e)
	}
	if !done {
		out = append(out, jkv{"allOf", append([]jv{}, members...)})
	}
	return out
}

// intify: integral numbers written as floats (1.0, 1e1) -> integer literals
func intify(v jv) jv {
	switch x := v.(type) {
	case jnum:
		if q := numRat(x); q.IsInt() && !isIntLiteral(x) {
			return ratDec(q, false)
		}
		return x
	case []jv:
		y := make([]jv, len(x))
		for i, e := range x {
			y[i] = intify(e)
		}
		return y
	case jobj:
		y := make(jobj, len(x))
		for i, e := range x {
			y[i] = jkv{e.k, intify(e.v)}
		}
		return y
	}
	return v
}

// ---- the transformations ---------------------------------------------------------------------

// nestAllOf: allOf [m1 … mn] (n >= 3) -> [m1, {"allOf":[m2, {"allOf":[…]}]}]: every allOf has
// at most two members, so `matchN(len(items), a)` can no longer disagree with len(a) while
// len(a) >= 2.  Specification-preserving.
func nestAllOf(s jv) jv {
	return mapSchemas(s, func(o jobj) jobj {
		out := jobj{}
		for _, e := range o {
			if e.k == "allOf" {
				if a, ok := e.v.([]jv); ok && len(a) >= 3 {
					var nest func(a []jv) []jv
					nest = func(a []jv) []jv {
						if len(a) <= 2 {
							return a
						}
						return []jv{a[0], jobj{{"allOf", nest(a[1:])}}}
					}
					out = append(out, jkv{"allOf", nest(a)})
					continue
				}
			}
			out = append(out, e)
		}
		return out
	})
}

// xNumberForm: CUE distinguishes the int literal 1 from the float literal 1.0, JSON Schema does
// not: write every integral number of the instance and of const/enum values as an integer.
func xNumberForm(s, inst jv) (jv, jv) {
	s2 := mapSchemas(s, func(o jobj) jobj {
		out := jobj{}
		for _, e := range o {
			if e.k == "const" || e.k == "enum" {
				out = append(out, jkv{e.k, intify(e.v)})
			} else {
				out = append(out, e)
			}
		}
		return out
	})
	return s2, intify(inst)
}

// xTypeList: "integer" is redundant next to "number".
func xTypeList(s, inst jv) (jv, jv) {
	return mapSchemas(s, func(o jobj) jobj {
		out := jobj{}
		for _, e := range o {
			if e.k == "type" {
				if a, ok := e.v.([]jv); ok {
					hasNum := false
					for _, t := range a {
						hasNum = hasNum || t == "number"
					}
					if hasNum {
						b := []jv{}
						for _, t := range a {
							if t != "integer" {
								b = append(b, t)
							}
						}
						out = append(out, jkv{"type", b})
						continue
					}
				}
			}
			out = append(out, e)
		}
		return out
	}), inst
}

// xDropPropertyNames: NOT specification-preserving — the keyword is deleted; the confirmation
// then says "the rest of the schema is translated correctly for this instance".
func xDropPropertyNames(s, inst jv) (jv, jv) {
	return mapSchemas(s, func(o jobj) jobj { return without(o, "propertyNames") }), inst
}

// xEnumObjects: enum with two or more object values -> anyOf of consts (each alternative is then
// evaluated on its own by matchN instead of staying an unresolved disjunction of closed structs)
func xEnumObjects(s, inst jv) (jv, jv) {
	return mapSchemas(s, func(o jobj) jobj {
		v, ok := o.get("enum")
		if !ok {
			return o
		}
		a, ok := v.([]jv)
		if !ok {
			return o
		}
		n := 0
		for _, e := range a {
			if _, ok := e.(jobj); ok {
				n++
			}
		}
		if n < 2 {
			return o
		}
		alts := []jv{}
		for _, e := range a {
			alts = append(alts, jobj{{"const", e}})
		}
		return addAllOf(without(o, "enum"), jobj{{"anyOf", alts}}, alwaysTrueConstrained())
	}), inst
}

// xDefsOpen: inside $defs an object/array branch made only of validators is a closed empty
// struct / list in a CUE definition; `required: []` and `items: true` (both vacuous) make the
// importer emit `{...}` / `[...]`.
func xDefsOpen(s, inst jv) (jv, jv) {
	root, ok := s.(jobj)
	if !ok {
		return s, inst
	}
	out := jobj{}
	for _, e := range root {
		if e.k == "$defs" {
			if defs, ok := e.v.(jobj); ok {
				nd := jobj{}
				for _, d := range defs {
					nd = append(nd, jkv{d.k, mapSchemas(d.v, func(o jobj) jobj {
						val, str, aval, astr := false, false, false, false
						for _, e := range o {
							switch e.k {
							case "minProperties", "maxProperties":
								val = true
							case "properties", "required", "patternProperties", "additionalProperties":
								str = true
							case "maxItems", "contains":
								aval = true
							case "uniqueItems":
								aval = aval || e.v == true
							case "items", "minItems", "prefixItems":
								astr = true
							}
						}
						if val && !str {
							o = append(o, jkv{"required", []jv{}})
						}
						if aval && !astr {
							o = append(o, jkv{"items", true})
						}
						return o
					})})
				}
				out = append(out, jkv{"$defs", nd})
				continue
			}
		}
		out = append(out, e)
	}
	return out, inst
}

// xRequiredApart: `required` names that are not in `properties`, next to additionalProperties,
// are moved into their own allOf member (the importer declares required names as fields of the
// struct, which exempts them from additionalProperties).
func xRequiredApart(s, inst jv) (jv, jv) {
	return mapSchemas(s, func(o jobj) jobj {
		ap, ok := o.get("additionalProperties")
		if !ok || ap == true {
			return o
		}
		rq, ok := o.get("required")
		if !ok {
			return o
		}
		a, ok := rq.([]jv)
		if !ok {
			return o
		}
		props := jobj{}
		if v, ok := o.get("properties"); ok {
			props, _ = v.(jobj)
		}
		var keep, move []jv
		for _, e := range a {
			name, _ := e.(string)
			if _, in := props.get(name); in {
				keep = append(keep, e)
			} else {
				move = append(move, e)
			}
		}
		if len(move) == 0 {
			return o
		}
		if keep == nil {
			keep = []jv{}
		}
		rest := jobj{}
		defs := jobj{}
		for _, e := range o {
			switch e.k {
			case "required":
				rest = append(rest, jkv{"required", keep})
			case "$defs":
				defs = append(defs, e)
			default:
				rest = append(rest, e)
			}
		}
		return append(defs, jkv{"allOf", []jv{rest, jobj{{"required", move}}, alwaysTrueConstrained()}})
	}), inst
}

// xFalseMember: a literal `false` member of allOf / oneOf -> {"not":{}} (equivalent; the
// importer gives `false` no constraints and the parent's allowed types)
func xFalseMember(s, inst jv) (jv, jv) {
	return mapSchemas(s, func(o jobj) jobj {
		out := jobj{}
		for _, e := range o {
			if e.k == "allOf" || e.k == "oneOf" {
				if a, ok := e.v.([]jv); ok {
					b := make([]jv, len(a))
					for i, m := range a {
						if m == false {
							b[i] = jobj{{"not", jobj{}}}
						} else {
							b[i] = m
						}
					}
					out = append(out, jkv{e.k, b})
					continue
				}
			}
			out = append(out, e)
		}
		return out
	}), inst
}

// xAnyOfFalseMember: a literal `false` member of anyOf -> {"not":{}} (equivalent).  The importer
// puts error("disallowed") into the matchN(>=1, …) list; on a FIELD that gets a second matchN
// validator from another conjunct (properties + patternProperties on the same key) the evaluator
// then reports "disallowed" although another member matches.
func xAnyOfFalseMember(s, inst jv) (jv, jv) {
	return mapSchemas(s, func(o jobj) jobj {
		out := jobj{}
		for _, e := range o {
			if e.k == "anyOf" {
				if a, ok := e.v.([]jv); ok {
					b := make([]jv, len(a))
					for i, m := range a {
						if m == false {
							b[i] = jobj{{"not", jobj{}}}
						} else {
							b[i] = m
						}
					}
					out = append(out, jkv{e.k, b})
					continue
				}
			}
			out = append(out, e)
		}
		return out
	}), inst
}

// xContains: contains S  ==  not array  OR  not (every item satisfies not S): expressed with
// the core validators (matchN), which treat an incomplete evaluation as a failure, instead of
// list.MatchN.
func xContains(s, inst jv) (jv, jv) {
	return mapSchemas(s, func(o jobj) jobj {
		c, ok := o.get("contains")
		if !ok {
			return o
		}
		m := jobj{{"anyOf", []jv{
			jobj{{"not", jobj{{"type", "array"}}}},
			jobj{{"not", jobj{{"items", jobj{{"not", c}}}}}},
		}}}
		return addAllOf(without(o, "contains"), m, alwaysTrueConstrained())
	}), inst
}

// xIfThenElse: if C then T else E  ==  (not C or T) and (C or E), with matchN instead of matchIf
// (a bottom inside a matchN LIST is a member that does not match; a bottom matchIf ARGUMENT
// fails the call)
func xIfThenElse(s, inst jv) (jv, jv) {
	return mapSchemas(s, func(o jobj) jobj {
		c, ok := o.get("if")
		if !ok {
			return o
		}
		t, hasT := o.get("then")
		e, hasE := o.get("else")
		rest := without(o, "if", "then", "else")
		var ms []jv
		if hasT {
			ms = append(ms, jobj{{"anyOf", []jv{jobj{{"not", c}}, t}}})
		}
		if hasE {
			ms = append(ms, jobj{{"anyOf", []jv{c, e}}})
		}
		if len(ms) == 0 {
			return rest
		}
		ms = append(ms, alwaysTrueConstrained())
		return addAllOf(rest, ms...)
	}), inst
}

// xIfDoubleNegation: every if / then / else part P -> {"not":{"not":P}}: equivalent, but the
// matchIf argument is now the validator matchN(0,[matchN(0,[P'])]), which is never bottom
// itself even when P' is ("an equivalent satisfiable-looking part that never matches").
func xIfDoubleNegation(s, inst jv) (jv, jv) {
	return mapSchemas(s, func(o jobj) jobj {
		if _, ok := o.get("if"); !ok {
			return o
		}
		out := jobj{}
		for _, e := range o {
			if e.k == "if" || e.k == "then" || e.k == "else" {
				out = append(out, jkv{e.k, jobj{{"not", jobj{{"not", e.v}}}}})
			} else {
				out = append(out, e)
			}
		}
		return out
	}), inst
}

// xIsolate: every group of keywords that the importer turns into a separate conjunct of one CUE
// value becomes its own allOf member, evaluated on its own by matchN, so that a closed struct
// never meets an open struct of another conjunct.  Keywords that interact stay together
// (properties/patternProperties/additionalProperties; if/then/else; items/prefixItems;
// contains/minContains/maxContains).  Specification-preserving.
func xIsolate(s, inst jv) (jv, jv) {
	group := func(k string) string {
		switch k {
		case "properties", "patternProperties", "additionalProperties", "required", "minProperties", "maxProperties", "propertyNames":
			return "object"
		case "items", "prefixItems", "minItems", "maxItems", "uniqueItems", "contains", "minContains", "maxContains":
			return "array"
		case "minimum", "maximum", "exclusiveMinimum", "exclusiveMaximum", "multipleOf":
			return "number"
		case "minLength", "maxLength", "pattern":
			return "string"
		case "if", "then", "else":
			return "if"
		case "type", "const", "enum", "$ref", "not", "allOf", "anyOf", "oneOf":
			return k
		}
		return "" // $defs, annotations: stay
	}
	return mapSchemas(s, func(o jobj) jobj {
		var order []string
		parts := map[string]jobj{}
		stay := jobj{}
		for _, e := range o {
			g := group(e.k)
			if g == "" {
				stay = append(stay, e)
				continue
			}
			if _, ok := parts[g]; !ok {
				order = append(order, g)
			}
			parts[g] = append(parts[g], e)
		}
		if len(order) < 2 {
			return o
		}
		// properties and patternProperties that may constrain the same key: apart as well,
		// keeping a value-free copy for additionalProperties
		var ms []jv
		for _, g := range order {
			p := parts[g]
			if g == "object" {
				ms = append(ms, splitObjectGroup(p)...)
			} else {
				ms = append(ms, p)
			}
		}
		ms = append(ms, alwaysTrueConstrained())
		return append(stay, jkv{"allOf", ms})
	}), inst
}

// splitObjectGroup: {properties P, patternProperties PP, additionalProperties X, …}  ==
// {properties P} and one {patternProperties {p: S}} per pattern and
// {properties P->true, patternProperties PP->true, additionalProperties X, the other keywords}
func splitObjectGroup(p jobj) []jv {
	pv, hasP := p.get("properties")
	ppv, hasPP := p.get("patternProperties")
	props, _ := pv.(jobj)
	pats, _ := ppv.(jobj)
	if !hasPP || len(pats) == 0 || (!hasP && len(pats) < 2) {
		return []jv{p}
	}
	var ms []jv
	if hasP {
		ms = append(ms, jobj{{"properties", props}})
	}
	for _, q := range pats {
		ms = append(ms, jobj{{"patternProperties", jobj{q}}})
	}
	rest := jobj{}
	for _, e := range p {
		switch e.k {
		case "properties":
			t := jobj{}
			for _, x := range props {
				t = append(t, jkv{x.k, true})
			}
			rest = append(rest, jkv{"properties", t})
		case "patternProperties":
			t := jobj{}
			for _, x := range pats {
				t = append(t, jkv{x.k, true})
			}
			rest = append(rest, jkv{"patternProperties", t})
		default:
			rest = append(rest, e)
		}
	}
	return append(ms, rest)
}

// xUnfold: replace references by the referenced schema, `fuel` levels deep (true below); used
// for recursive references beneath validators.  Equivalent for instances shallower than the
// fuel; the oracle judges the unfolded schema itself, so equivalence is not relied upon.
func xUnfoldWith(fuel int, limit int) func(s, inst jv) (jv, jv) {
	return func(s, inst jv) (jv, jv) {
		root, ok := s.(jobj)
		if !ok {
			return s, inst
		}
		defs := jobj{}
		if v, ok := root.get("$defs"); ok {
			defs, _ = v.(jobj)
		}
		rootBody := without(root, "$defs")
		size := 0
		var unfold func(v jv, fuel int) jv
		unfold = func(v jv, fuel int) jv {
			return mapSchemas(v, func(o jobj) jobj {
				r, ok := o.get("$ref")
				if !ok {
					return o
				}
				size++
				ref, _ := r.(string)
				var target jv = true
				if fuel > 0 && size < limit {
					if ref == "#" {
						target = unfold(rootBody, fuel-1)
					} else if len(ref) > 8 {
						if d, ok := defs.get(ref[8:]); ok {
							target = unfold(d, fuel-1)
						}
					}
				}
				return addAllOf(without(o, "$ref"), target, alwaysTrueConstrained())
			})
		}
		out := unfold(rootBody, fuel)
		if size >= limit {
			return s, inst // too large: not applicable
		}
		return out, inst
	}
}

func jvDepth(v jv) int {
	d := 0
	switch x := v.(type) {
	case []jv:
		for _, e := range x {
			if k := 1 + jvDepth(e); k > d {
				d = k
			}
		}
	case jobj:
		for _, e := range x {
			if k := 1 + jvDepth(e.v); k > d {
				d = k
			}
		}
	}
	return d
}

// ---- the catalogue -----------------------------------------------------------------------------

type c13Xform struct {
	class string
	fn    func(s, inst jv) (jv, jv)
	// needs: a fact about the REAL implementation that must hold in addition (mechanism
	// demonstration), "" if none: "matchIf-bottom-arg", "contains-standalone-differs"
	needs string
}

func c13Xforms(inst jv) []c13Xform {
	return []c13Xform{
		{"allOf-member-without-constraints", func(s, i jv) (jv, jv) { return s, i }, ""}, // nestAllOf alone (always applied last)
		{"number-literal-form", xNumberForm, ""},
		{"type-integer-and-number", xTypeList, ""},
		{"combinator-false-member", xFalseMember, ""},
		{"anyOf-false-member-second-validator", xAnyOfFalseMember, ""},
		{"enum-two-objects", xEnumObjects, ""},
		{"defs-bare-validator", xDefsOpen, ""},
		{"propertyNames", xDropPropertyNames, ""},
		{"additionalProperties-with-required", xRequiredApart, ""},
		{"matchIf-eager-bottom", xIfDoubleNegation, "matchIf-bottom-arg"},
		{"matchIf-eager-bottom", xIfThenElse, "matchIf-bottom-arg"},
		{"contains-incomplete-swallowed", xContains, "contains-standalone-differs"},
		{"closedness-lost", xIsolate, "has-closed-struct"},
		{"recursive-ref-under-validator", xUnfoldWith(jvDepth(inst)+2, 150), "recursive-ref"},
	}
}

func sameJV(a, b jv) bool { return renderJV(a) == renderJV(b) }

var _ = fmt.Sprint
var _ = big.NewInt
