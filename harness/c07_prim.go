package main

// C07 — export primitives: model-level questions (tie to lean/CueVerif/Model/Export.lean) and
// the fixed witnesses.
//
//	I  label <hex s>            what ast.NewStringLabel(s) yields: `id <hex name>` / `str <hex literal>`
//	I  plabel id|str <hex text> how a label text reads back: `str <hex s>` / `def` / `hid` / `bad`
//	O  range <conjuncts…>       adt.MatchBuiltinRange on that conjunction: predeclared name or `-`
//	I  simp <conjuncts…>        the conjunct words export prints for the conjunction (sorted)
//	O  sat <atom> <conjuncts…>  does the atom satisfy every conjunct (the evaluator decides)
//
// plus Direct predicates on the implementation alone: label round trip through
// eval→print→parse→eval for every string of the label stream (file level and nested), and for
// every conjunction of the `simp` stream that the printed conjunction accepts exactly the
// atoms the original accepts (probed at and next to every bound).

import (
	"fmt"
	"math/big"
	"sort"
	"strconv"
	"strings"
	"sync"

	"github.com/cockroachdb/apd/v3"

	"cuelang.org/go/cue"
	"cuelang.org/go/cue/ast"
	"cuelang.org/go/cue/cuecontext"
	"cuelang.org/go/cue/format"
	"cuelang.org/go/cue/literal"
	"cuelang.org/go/cue/token"
	"cuelang.org/go/internal/core/adt"
	"cuelang.org/go/internal/core/export"
	"cuelang.org/go/internal/core/runtime"
	"golang.org/x/text/unicode/norm"
)

// ---- witnesses -----------------------------------------------------------------------------------

func c7Witnesses() []c7prog {
	w := func(name, src string) c7prog { return c7prog{name: "witness:" + name, stream: "witness", src: src} }
	var out []c7prog
	// boundaries of every predeclared range, as bounds (exact, one off on either side)
	var sb strings.Builder
	rows := [][3]string{
		{"int8", "-128", "127"}, {"int16", "-32768", "32767"}, {"int32", "-2147483648", "2147483647"}, {"int64", "-9223372036854775808", "9223372036854775807"},
		{"int128", "-170141183460469231731687303715884105728", "170141183460469231731687303715884105727"},
		{"uint8", "0", "255"}, {"uint16", "0", "65535"}, {"uint32", "0", "4294967295"}, {"uint64", "0", "18446744073709551615"},
		{"uint128", "0", "340282366920938463463374607431768211455"}, {"rune", "0", "1114111"},
	}
	for _, r := range rows {
		fmt.Fprintf(&sb, "%s_exact: int & >=%s & <=%s\n", r[0], r[1], r[2])
		lo, _ := new(big.Int).SetString(r[1], 10)
		hi, _ := new(big.Int).SetString(r[2], 10)
		one := big.NewInt(1)
		fmt.Fprintf(&sb, "%s_hi1: int & >=%s & <=%s\n", r[0], r[1], new(big.Int).Add(hi, one))
		fmt.Fprintf(&sb, "%s_hi0: int & >=%s & <=%s\n", r[0], r[1], new(big.Int).Sub(hi, one))
		fmt.Fprintf(&sb, "%s_lo1: int & >=%s & <=%s\n", r[0], new(big.Int).Sub(lo, one), r[2])
		fmt.Fprintf(&sb, "%s_lo0: int & >=%s & <=%s\n", r[0], new(big.Int).Add(lo, one), r[2])
		fmt.Fprintf(&sb, "%s_name: %s\n", r[0], r[0])
		fmt.Fprintf(&sb, "%s_nameAnd: %s & >%s\n", r[0], r[0], r[1])
		fmt.Fprintf(&sb, "%s_strict: int & >%s & <%s\n", r[0], r[1], r[2])
	}
	out = append(out, w("range-boundaries", sb.String()))
	out = append(out, w("range-boundaries-literal", `
a: int & >=0 & <=255
b: int & >=0 & <=256
c: int & >=0 & <=254
d: int & >=1 & <=255
e: int & >=-1 & <=255
f: int & >=0
g: int & >=1
h: int & >0
i: int & >=0 & <256
j: >=0 & <=255
k: number & >=0 & <=255
l: int & >=0.0 & <=255.0
m: int & >=-128 & <=127
n: int & >=-128 & <=128
o: int & >=-129 & <=127
p: int & >=0 & <=65535
q: int & >=0 & <=65536
r: int & >=0 & <=4294967295
s: int & >=0 & <=4294967296
t: int & >=0 & <=18446744073709551615
u: int & >=0 & <=18446744073709551616
v: int & >=-9223372036854775808 & <=9223372036854775807
w: int & >=-9223372036854775808 & <=9223372036854775808
x: float & >=-3.40282346638528859811704183484516925440e+38 & <=3.40282346638528859811704183484516925440e+38
y: >=-3.40282346638528859811704183484516925440e+38 & <=3.40282346638528859811704183484516925440e+38
z: >=-3.40282346638528859811704183484516925440e+38 & <=3.40282346638528859811704183484516925441e+38
aa: >=-1.797693134862315708145274237317043567981e+308 & <=1.797693134862315708145274237317043567981e+308
ab: int & >=3 & >=5 & <=10 & <12
ac: int & >2 & >=2 & <9 & <=9
ad: int & >=2 & >2 & <=9 & <9
ae: int & >=0 & >=0 & <=255
af: int & >=0 & <=255 & !=7
ag: int & >=-0.5 & <=255
ah: int & >0.5 & <=255
`))
	out = append(out, w("disjunction-parentheses", `
a: *1 | 2 | 3
b: (*1 | 2) & (1 | *2)
c: *(*1 | 2) | 3
d: (1 | *2) | (*3 | 4)
e: (*1 | 2) | 7
f: *(1 | 2) | 7
g: (1 | 2) & >1
h: (int | string) & (string | bool)
i: 1 | (2 & int)
j: (>1 & <5) | 7 | *9
k: *{a: 1} | {b: 2}
l: ({a: 1} | {b: 2}) & {c: 3}
m: [(1 | 2) & int, *3 | 4]
n: (*"a" | "b") & ("a" | *"b")
o: *null | {a: *1 | int}
p: -1 | -2
q: < -1 | > -5
r: !=-1
s: (<5 | >10) & int
t: *[1] | [2, 3]
`))
	out = append(out, w("labels", `
"a-b": 1
"0a": 2
"if": 3
"for": 4
"let": 5
"in": 6
"true": 7
"null": 8
"_x": 9
"#y": 10
"_#z": 11
"_": 12
"": 13
"a b": 14
"é": 15
"1": 16
"func": 17
x: {"if": 1, "a-b": {"for": 2}}
y: {"let": 1}
z: {"in": {"else": 1}}
`))
	out = append(out, w("closedness-and-definitions", `
#D: {a: int, b?: string, c!: bool}
d: #D & {a: 1, c: true}
#E: {x: {y: int}}
e: #E & {x: y: 2}
c1: close({a: 1})
c2: close({a: int, b?: int})
o1: {a: 1, ...}
p1: {[string]: int, a: 1}
p2: {[=~"^x"]: string, xa: "v"}
l1: [...int]
l2: [1, 2, ...]
l3: [int, ...string]
#F: [...{n: int}]
f: #F & [{n: 1}]
`))
	out = append(out, w("references-let-comprehensions", `
import "strings"
import "list"
a: 5
b: a + 1
let X = a * 2
c: X
d: {let Y = 3, e: Y + a}
f: [for x in [1, 2, 3] if x > 1 {x * a}]
g: {for k, v in {p: 1, q: 2} {"\(k)2": v}}
h: strings.ToUpper("x") + "\(a)"
i: strings.MinRunes(3)
j: list.MaxItems(3) & [...int]
k: {m: a, n: {o: m}}
_h: 3
l: _h
#Def: {q: int}
m: #Def & {q: a}
`))
	return out
}

// ---- conjunct words -----------------------------------------------------------------------------

type c7conj struct {
	word string
	val  adt.Value
	cue  string
}

func c7numWord(n *adt.Num) string {
	if n.K&adt.IntKind != 0 {
		return "i" + n.X.Text('f')
	}
	neg := ""
	if n.X.Negative {
		neg = "-"
	}
	return fmt.Sprintf("f%s%se%d", neg, n.X.Coeff.String(), n.X.Exponent)
}

func c7mkNum(isInt bool, coeff int64, exp int32) *adt.Num {
	n := &adt.Num{K: adt.FloatKind}
	if isInt {
		n.K = adt.IntKind
	}
	n.X.SetFinite(coeff, exp)
	return n
}

var c7ops = map[string]adt.Op{"lt": adt.LessThanOp, "le": adt.LessEqualOp, "gt": adt.GreaterThanOp, "ge": adt.GreaterEqualOp, "ne": adt.NotEqualOp}
var c7opSyms = map[string]string{"lt": "<", "le": "<=", "gt": ">", "ge": ">=", "ne": "!="}

func c7bound(op string, n *adt.Num) c7conj {
	txt := n.X.Text('f')
	if n.K&adt.IntKind == 0 && !strings.Contains(txt, ".") {
		txt += ".0"
	}
	return c7conj{word: "B:" + op + ":" + c7numWord(n), val: &adt.BoundValue{Op: c7ops[op], Value: n}, cue: c7opSyms[op] + " " + txt}
}

func c7type(name string) c7conj {
	k := map[string]adt.Kind{"int": adt.IntKind, "float": adt.FloatKind, "number": adt.NumberKind, "string": adt.StringKind, "bool": adt.BoolKind, "bytes": adt.BytesKind, "top": adt.TopKind}[name]
	src := name
	if name == "top" {
		src = "_"
	}
	return c7conj{word: "T:" + name, val: &adt.BasicType{K: k}, cue: src}
}

// c7exportWords: what the exporter prints for the conjunction, as sorted conjunct words.
func c7exportWords(r *runtime.Runtime, cs []c7conj) (words string, text string) {
	defer func() {
		if e := recover(); e != nil {
			words = "panic"
		}
	}()
	vals := make([]adt.Value, len(cs))
	for i, c := range cs {
		vals[i] = c.val
	}
	x, err := export.Simplified.Value(r, "", &adt.Conjunction{Values: vals})
	if err != nil {
		return "error", ""
	}
	b, _ := format.Node(x)
	text = string(b)
	var terms []ast.Expr
	var flat func(e ast.Expr)
	flat = func(e ast.Expr) {
		if be, ok := e.(*ast.BinaryExpr); ok && be.Op == token.AND {
			flat(be.X)
			flat(be.Y)
			return
		}
		if pe, ok := e.(*ast.ParenExpr); ok {
			flat(pe.X)
			return
		}
		terms = append(terms, e)
	}
	flat(x)
	var ws []string
	for _, t := range terms {
		switch t := t.(type) {
		case *ast.Ident:
			switch t.Name {
			case "int", "float", "number", "string", "bool", "bytes", "uint":
				ws = append(ws, "T:"+t.Name)
			case "_":
				ws = append(ws, "T:top")
			default:
				ws = append(ws, "R:"+t.Name)
			}
		case *ast.UnaryExpr:
			op := ""
			for k, v := range c7opSyms {
				if v == t.Op.String() {
					op = k
				}
			}
			lit, _ := t.X.(*ast.BasicLit)
			if op == "" || lit == nil {
				ws = append(ws, "?")
				continue
			}
			ws = append(ws, "B:"+op+":"+c7litWord(lit))
		default:
			ws = append(ws, "?")
		}
	}
	sort.Strings(ws)
	if len(ws) == 0 {
		return "-", text
	}
	if len(ws) == 1 && ws[0] == "T:uint" {
		// a lone `uint` is MatchBuiltinRange's answer (the simplifier never prints it alone)
		return "R:uint", text
	}
	return strings.Join(ws, ","), text
}

func c7litWord(lit *ast.BasicLit) string {
	s := lit.Value
	if lit.Kind == token.INT {
		return "i" + s
	}
	neg := ""
	if strings.HasPrefix(s, "-") {
		neg, s = "-", s[1:]
	}
	exp := 0
	if i := strings.IndexAny(s, "eE"); i >= 0 {
		e, _ := strconv.Atoi(strings.TrimPrefix(s[i+1:], "+"))
		exp, s = e, s[:i]
	}
	if i := strings.IndexByte(s, '.'); i >= 0 {
		exp -= len(s) - i - 1
		s = s[:i] + s[i+1:]
	}
	s = strings.TrimLeft(s, "0")
	if s == "" {
		s = "0"
	}
	return fmt.Sprintf("f%s%se%d", neg, s, exp)
}

// c7accepts: does the evaluator accept `atom & conj`?
func c7accepts(ctx *cue.Context, atom, conj string) bool {
	return c7acceptsAll(ctx, []string{atom}, conj)[0]
}

// c7acceptsAll: one compilation, one field per probed atom.
func c7acceptsAll(ctx *cue.Context, atoms []string, conj string) []bool {
	var sb strings.Builder
	for i, a := range atoms {
		fmt.Fprintf(&sb, "p%d: %s & (%s)\n", i, a, conj)
	}
	out := make([]bool, len(atoms))
	v := ctx.CompileString(sb.String())
	for i := range atoms {
		w := v.LookupPath(cue.ParsePath(fmt.Sprintf("p%d", i)))
		out[i] = w.Exists() && w.Err() == nil && w.Validate() == nil
	}
	return out
}

func c7Primitives(c *Cfg, r *Rng) {
	ctx := cuecontext.New()

	// ---- labels ----
	alphabet := []string{"a", "Z", "0", "_", "#", "$", "-", " ", "\"", "\\", ".", "é", "if", "\n", "\t", "日", ":"}
	var labels []string
	labels = append(labels, "")
	for _, a := range alphabet {
		labels = append(labels, a)
		for _, b := range alphabet {
			labels = append(labels, a+b)
			if c.Thorough() {
				for _, d := range alphabet {
					labels = append(labels, a+b+d)
				}
			}
		}
	}
	labels = append(labels, "if", "for", "let", "in", "true", "false", "null", "import", "package", "func", "try", "else", "fallback", "otherwise", "int", "string", "len", "close",
		"self", "__int", "_|_", "e\u0301", "A\u030a", "\u1e9b\u0323", "a-b", "0a", "_x", "#y", "_#z", "__x", "x y", "a.b", "ｆｕｌｌ", "é", "é", "a\u0000b", "\ufeff", "\u200b", "𝒳", "x1", "X_1", "$x", "a$b")
	seen := map[string]bool{}
	for _, s := range labels {
		if seen[s] {
			continue
		}
		seen[s] = true
		c7Label(c, ctx, s)
	}

	// ---- ranges and bound simplification ----
	special := []int64{-129, -128, -127, -1, 0, 1, 5, 127, 128, 254, 255, 256, 65535, 65536, 1114111}
	pickNum := func(rr *Rng) *adt.Num {
		switch rr.Intn(6) {
		case 0:
			return c7mkNum(false, int64(rr.Intn(60)-30), int32(-1-rr.Intn(2))) // 1.5, -0.25 …
		case 1:
			return c7mkNum(false, Pick(rr, special), 0) // 255.0 as a float
		case 2:
			return c7mkNum(false, Pick(rr, special)*10, -1) // 255.0 spelled 2550e-1
		default:
			return c7mkNum(true, Pick(rr, special)+int64(rr.Intn(3)-1)*int64(rr.Intn(2)), 0)
		}
	}
	n := c.Pick(700, 9000)
	rr := r.Sub()
	ops := []string{"lt", "le", "gt", "ge", "ne"}
	// every exact table row and its neighbours
	var fixed [][]c7conj
	for _, row := range [][2]string{{"-128", "127"}, {"-32768", "32767"}, {"-2147483648", "2147483647"}, {"-9223372036854775808", "9223372036854775807"},
		{"-170141183460469231731687303715884105728", "170141183460469231731687303715884105727"}, {"0", "255"}, {"0", "65535"}, {"0", "4294967295"},
		{"0", "18446744073709551615"}, {"0", "340282366920938463463374607431768211455"}, {"0", "1114111"}} {
		for dlo := -1; dlo <= 1; dlo++ {
			for dhi := -1; dhi <= 1; dhi++ {
				lo, hi := &adt.Num{K: adt.IntKind}, &adt.Num{K: adt.IntKind}
				lo.X.SetString(row[0])
				hi.X.SetString(row[1])
				adtAdd(&lo.X, dlo)
				adtAdd(&hi.X, dhi)
				fixed = append(fixed, []c7conj{c7type("int"), c7bound("ge", lo), c7bound("le", hi)})
				if dlo == 0 && dhi == 0 {
					fixed = append(fixed, []c7conj{c7bound("ge", lo), c7bound("le", hi)})
					fixed = append(fixed, []c7conj{c7bound("le", hi), c7type("int"), c7bound("ge", lo)})
					fixed = append(fixed, []c7conj{c7type("int"), c7type("int"), c7bound("ge", lo), c7bound("le", hi)})
					fixed = append(fixed, []c7conj{c7type("int"), c7bound("gt", lo), c7bound("le", hi)})
					fixed = append(fixed, []c7conj{c7type("number"), c7bound("ge", lo), c7bound("le", hi)})
				}
			}
		}
	}
	cases := make([][]c7conj, 0, n+len(fixed))
	for i := 0; i < n+len(fixed); i++ {
		var cs []c7conj
		if i < len(fixed) {
			cs = fixed[i]
		} else {
			k := 1 + rr.Intn(5)
			if rr.Chance(2, 3) {
				cs = append(cs, c7type(Pick(rr, []string{"int", "int", "int", "number", "float"})))
			}
			for j := 0; j < k; j++ {
				op := Pick(rr, ops)
				if rr.Chance(1, 8) {
					op = "ne"
				}
				cs = append(cs, c7bound(op, pickNum(rr)))
			}
			Shuffle(rr, cs)
		}
		cases = append(cases, cs)
	}
	var wg sync.WaitGroup
	nw := 8
	for w := 0; w < nw; w++ {
		wg.Add(1)
		go func(w int) {
			defer wg.Done()
			rt := runtime.New()
			ctx := cuecontext.New()
			for i := w; i < len(cases); i += nw {
				c7BoundsCase(c, rt, ctx, i, cases[i])
			}
		}(w)
	}
	wg.Wait()
}

func c7BoundsCase(c *Cfg, rt *runtime.Runtime, ctx *cue.Context, i int, cs []c7conj) {
	{
		var words, cues []string
		for _, x := range cs {
			words = append(words, x.word)
			cues = append(cues, x.cue)
		}
		line := strings.Join(words, " ")
		vals := make([]adt.Value, len(cs))
		for j, x := range cs {
			vals[j] = x.val
		}
		name := func() (s string) {
			defer func() {
				if recover() != nil {
					s = "panic"
				}
			}()
			s = adt.MatchBuiltinRange(&adt.Conjunction{Values: vals})
			if s == "" {
				s = "-"
			}
			return
		}()
		c.Op("O", "range "+line, name)
		c.Count("range:" + map[bool]string{true: "match", false: "nomatch"}[name != "-"])
		ew, text := c7exportWords(rt, cs)
		c.Op("I", "simp "+line, ew)
		c.Case("simp "+line, len(cs) >= 2)
		// Direct: the printed conjunction accepts exactly what the original accepts, probed at
		// and next to every bound
		orig := strings.Join(cues, " & ")
		if text == "" || ew == "panic" || ew == "error" {
			c.Direct(false, "bounds:export-failed", "exporting the conjunction "+orig+" failed: "+ew, map[string]any{"conjunction": orig})
			return
		}
		bad := ""
		probes := []string{"_"}
		for _, x := range cs {
			if bv, ok := x.val.(*adt.BoundValue); ok {
				nn := bv.Value.(*adt.Num)
				f, _ := nn.X.Float64()
				base := int64(f)
				for d := int64(-1); d <= 1; d++ {
					probes = append(probes, strconv.FormatInt(base+d, 10), strconv.FormatInt(base+d, 10)+".5", strconv.FormatInt(base+d, 10)+".0")
				}
			}
		}
		probes = append(probes, "0", "-1", `"s"`, "1.5")
		probes = c7dedup(probes)
		accO := c7acceptsAll(ctx, probes, orig)
		accP := c7acceptsAll(ctx, probes, text)
		for j, p := range probes {
			if accO[j] != accP[j] {
				bad = p
				break
			}
		}
		c.Direct(bad == "", "bounds:printed-conjunction-denotes-another-set", fmt.Sprintf("%s printed as %s: they disagree on %s", orig, text, bad),
			map[string]any{"conjunction": orig, "printed": text, "atom": bad})
		// tie of the spec's `sat` to the evaluator on the ORIGINAL conjunction
		if len(probes) > 1 && accO[0] {
			j := 1 + i%(len(probes)-1)
			if w := c7atomWord(probes[j]); w != "" {
				c.Op("O", "sat "+w+" "+line, strconv.FormatBool(accO[j]))
			}
		}
	}
}

func c7dedup(xs []string) []string {
	seen := map[string]bool{}
	var out []string
	for _, x := range xs {
		if !seen[x] {
			seen[x] = true
			out = append(out, x)
		}
	}
	return out
}

func c7atomWord(p string) string {
	switch {
	case strings.HasPrefix(p, `"`):
		s, err := strconv.Unquote(p)
		if err != nil {
			return ""
		}
		return "s" + H(s)
	case strings.Contains(p, "."):
		neg := ""
		if strings.HasPrefix(p, "-") {
			neg, p = "-", p[1:]
		}
		i := strings.IndexByte(p, '.')
		digits := strings.TrimLeft(p[:i]+p[i+1:], "0")
		if digits == "" {
			digits = "0"
		}
		return fmt.Sprintf("f%s%se%d", neg, digits, -(len(p) - i - 1))
	default:
		return "i" + p
	}
}

func adtAdd(d *apd.Decimal, delta int) {
	c := apd.BaseContext.WithPrecision(60)
	c.Add(d, d, apd.New(int64(delta), 0))
}

// c7Label: the model ops and the direct round trip for one label string.
func c7Label(c *Cfg, ctx *cue.Context, s string) {
	ascii := true
	for i := 0; i < len(s); i++ {
		if s[i] >= 0x80 {
			ascii = false
		}
	}
	lab := ast.NewStringLabel(s)
	var ans, text string
	switch x := lab.(type) {
	case *ast.Ident:
		ans, text = "id "+H(x.Name), x.Name
		c.Count("label:unquoted")
	case *ast.BasicLit:
		ans, text = "str "+H(x.Value), x.Value
		c.Count("label:quoted")
	}
	if ascii {
		c.Op("I", "label "+H(s), ans)
		// reading side of what was printed
		kind := "id"
		if strings.HasPrefix(ans, "str") {
			kind = "str"
		}
		c.Op("I", "plabel "+kind+" "+H(text), c7readLabel(text))
		// the exporter's own label (exporter.stringLabel through Value.Syntax, value mode)
		if xa := c7exportedLabel(ctx, s); xa != "" {
			c.Op("I", "xlabel "+H(s), xa)
		}
	}
	c.Case("label "+s, s != "")
	// Direct: through the evaluator and the exporter, nested and (not first) at file level
	want := norm.NFC.String(s)
	q := literal.String.Quote(s)
	for _, form := range []struct{ name, src, path string }{
		{"nested", "x: {" + q + ": 1}", "x"},
		{"file-level", "zz0: 0\n" + q + ": 1", ""},
		{"file-level-first", q + ": 1", ""},
		{"dynamic", "x: {(" + q + "): 1}", "x"},
	} {
		v := ctx.CompileString(form.src)
		if v.Err() != nil {
			c.Count("label:source-rejected")
			continue
		}
		for _, pf := range []string{"eval", "default"} {
			var opts []cue.Option
			if pf == "eval" {
				opts = []cue.Option{cue.Final(), cue.Definitions(true)}
			}
			w := want
			if form.name == "dynamic" {
				w = s // a computed label is NOT normalised when the field is created
			}
			ok, detail, out := c7labelRT(v, opts, form.path, w)
			cls := "label:" + form.name + ":lost-or-changed"
			if !ok && form.name == "dynamic" && want != s {
				cls = "label-nfc"
			}
			if !ok && (s == "import" || s == "package") && form.path == "" {
				cls = "keyword-label-import-or-package-unquoted-at-file-level"
			}
			c.Direct(ok, cls, fmt.Sprintf("label %q (%s, profile %s): %s", s, form.name, pf, detail), map[string]any{"p": form.src, "profile": pf, "output": out})
		}
	}
}

// c7exportedLabel: the label node Value.Syntax(Final) builds for the field named s.
func c7exportedLabel(ctx *cue.Context, s string) (ans string) {
	defer func() {
		if recover() != nil {
			ans = ""
		}
	}()
	v := ctx.CompileString("x: {" + literal.String.Quote(s) + ": 1}")
	if v.Err() != nil {
		return ""
	}
	st, ok := v.LookupPath(cue.ParsePath("x")).Syntax(cue.Final()).(*ast.StructLit)
	if !ok || len(st.Elts) != 1 {
		return ""
	}
	f, ok := st.Elts[0].(*ast.Field)
	if !ok {
		return ""
	}
	switch x := f.Label.(type) {
	case *ast.Ident:
		return "id " + H(x.Name)
	case *ast.BasicLit:
		return "str " + H(x.Value)
	}
	return ""
}

func c7labelRT(v cue.Value, opts []cue.Option, path, want string) (ok bool, detail, out string) {
	defer func() {
		if e := recover(); e != nil {
			ok, detail = false, fmt.Sprint("panic: ", e)
		}
	}()
	b, err := format.Node(v.Syntax(opts...))
	if err != nil {
		return false, "format: " + err.Error(), ""
	}
	out = string(b)
	v2 := cuecontext.New().CompileBytes(b)
	if v2.Err() != nil {
		return false, "output rejected: " + c7clip(v2.Err().Error(), 200), out
	}
	w := v2
	if path != "" {
		w = v2.LookupPath(cue.ParsePath(path))
	}
	it, err := w.Fields(cue.All())
	if err != nil {
		return false, "no fields: " + err.Error(), out
	}
	var got []string
	for it.Next() {
		sel := it.Selector()
		if sel.LabelType() == cue.StringLabel {
			got = append(got, sel.Unquoted())
		} else {
			got = append(got, "<"+sel.String()+">")
		}
	}
	for _, g := range got {
		if g == want {
			return true, "", out
		}
	}
	return false, fmt.Sprintf("fields read back: %q", got), out
}

// c7readLabel: how the label text reads back in `x: {<text>: 1}`.
func c7readLabel(text string) (ans string) {
	defer func() {
		if recover() != nil {
			ans = "bad"
		}
	}()
	v := cuecontext.New().CompileString("x: {" + text + ": 1}")
	if v.Err() != nil {
		return "bad"
	}
	it, err := v.LookupPath(cue.ParsePath("x")).Fields(cue.All())
	if err != nil {
		return "bad"
	}
	if !it.Next() {
		return "bad"
	}
	sel := it.Selector()
	switch sel.LabelType() {
	case cue.StringLabel:
		return "str " + H(sel.Unquoted())
	case cue.DefinitionLabel, cue.HiddenDefinitionLabel:
		return "def"
	case cue.HiddenLabel:
		return "hid"
	}
	return "bad"
}
