package main

// C11 — syntactic classes of strings for which the unchanged tree is known to violate the
// property (known-findings.d/C11.txt, notes/C11.md).  A class is a predicate on the STRING
// (and its role), never a list of individual strings.  The predicates are only consulted
// for a case that already failed; the "clean" half of the generated trees avoids every class,
// so that an unrelated failure cannot hide behind one.

import (
	"math/big"
	"regexp"
	"strconv"
	"strings"

	"cuelang.org/go/cue/literal"
	"github.com/cockroachdb/apd/v3"
)

func c11OnlyNewlines(s string) bool { return s != "" && strings.Trim(s, "\n") == "" }

// c11KnownClass: classes that apply to a string as a value (key=false; multi = the CUE
// literal is multi-line) or as a mapping key at any depth (key=true).
func c11KnownClass(goccy bool, s string, key bool, multi bool) string {
	if goccy {
		return "" // every string class found so far is repaired in /repo (see the fixed: lines)
	}
	// yaml.v3 based implementation
	switch {
	case s == "<<":
		return "v3-merge-indicator"
	case strings.ContainsAny(s, "\u2028\u2029"):
		return "v3-line-separator-decoder-panic"
	case (multi || strings.Contains(s, "\n")) && strings.HasPrefix(strings.TrimLeft(s, "\n"), "\t"):
		return "v3-literal-block-first-line-starts-with-tab"
	}
	return ""
}

// c11KnownTop: classes that apply to a string only at column 0 of the document (top-level
// scalar, or key of the top-level mapping).
func c11KnownTop(goccy bool, s string) string {
	return ""
}

var c11SurrogateEsc = regexp.MustCompile(`\\u[dD][89abAB][0-9a-fA-F]{2}\\u[dD][c-fC-F][0-9a-fA-F]{2}`)

// c11JSONLayout scans a JSON text outside of strings: is there a TAB / a line break in the
// white space between a member name and its colon; is there a TAB in the white space at the
// start of a line.
func c11JSONLayout(doc string) (tabBeforeColon, nlBeforeColon, tabIndent bool, maxName int) {
	inStr, lineStart := false, true
	strStart, lastStrLen := 0, 0
	wsTab, wsNL := false, false
	for i := 0; i < len(doc); i++ {
		ch := doc[i]
		if inStr {
			if ch == '\\' {
				i++
			} else if ch == '"' {
				inStr = false
				wsTab, wsNL = false, false
				lastStrLen = i - strStart + 1
			}
			continue
		}
		switch ch {
		case '"':
			inStr, lineStart, strStart = true, false, i
		case '\t':
			wsTab = true
			if lineStart {
				tabIndent = true
			}
		case '\n', '\r':
			wsNL, lineStart = true, true
		case ' ':
		case ':':
			tabBeforeColon = tabBeforeColon || wsTab
			nlBeforeColon = nlBeforeColon || wsNL
			maxName = max(maxName, lastStrLen)
			wsTab, wsNL, lineStart = false, false, false
		default:
			wsTab, wsNL, lineStart = false, false, false
		}
	}
	return
}

// c11KnownJSON: classes of JSON documents on which the YAML decoder is known to deviate.
func c11KnownJSON(goccy bool, t *c11V, doc string) string {
	tabColon, nlColon, tabIndent, maxName := c11JSONLayout(doc)
	if goccy {
		if tabColon {
			return "goccy-json-tab-between-name-and-colon"
		}
		return ""
	}
	switch {
	case c11SurrogateEsc.MatchString(doc):
		return "v3-json-escaped-surrogate-pair"
	case strings.Contains(doc, `\/`):
		return "v3-json-escaped-solidus"
	case nlColon:
		return "v3-json-line-break-between-name-and-colon"
	case tabIndent:
		return "v3-json-tab-at-line-start"
	case maxName > 1024:
		return "v3-json-member-name-longer-than-1024"
	}
	for _, r := range doc {
		switch {
		case r == 0x85 || r == 0x2028 || r == 0x2029:
			return "v3-json-raw-unicode-line-break-in-string"
		case r == 0x7f || (r >= 0x80 && r <= 0x9f) || r == 0xfffe || r == 0xffff || r == 0xfeff || (r >= 0xd800 && r <= 0xdfff):
			return "v3-json-raw-nonprintable-in-string"
		}
	}
	cls := ""
	var walk func(v *c11V)
	walk = func(v *c11V) {
		if cls == "" {
			cls = c11KnownNum(goccy, v)
		}
		for _, e := range v.elems {
			walk(e)
		}
	}
	walk(t)
	return cls
}

// c11KnownBytes: classes of bytes values (not at the top of the document).
func c11KnownBytes(goccy bool, b string) string {
	if goccy && b == "" {
		return "goccy-empty-bytes-nested"
	}
	return ""
}

// c11KnownNum: classes of numbers.
func c11KnownNum(goccy bool, v *c11V) string {
	if goccy {
		return ""
	}
	switch v.k {
	case 'i':
		var ni literal.NumInfo
		if literal.ParseNum(v.num, &ni) != nil || !ni.IsInt() {
			return ""
		}
		var d apd.Decimal
		if ni.Decimal(&d) != nil {
			return ""
		}
		n, ok := new(big.Int).SetString(d.Text('f'), 10)
		if !ok {
			return ""
		}
		if v.neg {
			n.Neg(n)
		}
		lo := new(big.Int).Lsh(big.NewInt(-1), 63)
		hi := new(big.Int).Lsh(big.NewInt(1), 64)
		if n.Cmp(lo) < 0 || n.Cmp(hi) >= 0 {
			return "v3-integer-beyond-64-bits"
		}
	case 'f':
		if _, err := strconv.ParseFloat(strings.ReplaceAll(v.num, "_", ""), 64); err != nil {
			return "v3-float-beyond-float64"
		}
	}
	return ""
}

// c11KnownKeyStyle: classes of keys whose visible style is known to differ from the in-repo
// decision (the decision is the model's; the library then mangles the scalar).
func c11KnownKeyStyle(s string) string { return "" }
