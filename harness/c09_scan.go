package main

// C09 extension (session 3) — the scanner as a total function.
//
// Stream `scan`: the complete token stream of cue/scanner (kind, offset, s.Offset() after
// the call, literal, "ErrorCount grew during this call") compared BYTE FOR BYTE with the
// model's `Scan.scan`, on corpus files, byte-level mutations of corpus windows, token soups
// and exhaustive short soups, in the modes 0, ScanComments and DontInsertCommas.  The client
// loop (Scan until EOF; ResumeInterpolation after the `)` that closes an interpolation, "another
// interpolation follows" iff the segment ends in `(` — the parser's rule) is the same on both
// sides.  Direct predicates on the implementation alone: offsets never decrease and stay
// within [0,len], every call makes progress (consumes a byte, or returns the automatic comma
// once, or EOF), no panic.

import (
	"fmt"
	"strconv"
	"strings"
	"sync"

	"cuelang.org/go/cue/scanner"
	"cuelang.org/go/cue/token"
)

// class of the scan ops: the model's stream is proved in range / monotone / progressing
// (C09_scan_*), so a disagreement is a failing input
const c09ScanClass = "O"

func c09KindName(t token.Token) string {
	if t.IsKeyword() {
		return "KEYWORD"
	}
	switch t {
	case token.ILLEGAL:
		return "ILLEGAL"
	case token.EOF:
		return "EOF"
	case token.COMMENT:
		return "COMMENT"
	case token.ATTRIBUTE:
		return "ATTRIBUTE"
	case token.IDENT:
		return "IDENT"
	case token.INT:
		return "INT"
	case token.FLOAT:
		return "FLOAT"
	case token.STRING:
		return "STRING"
	case token.INTERPOLATION:
		return "INTERPOLATION"
	case token.BOTTOM:
		return "BOTTOM"
	case token.ADD:
		return "ADD"
	case token.SUB:
		return "SUB"
	case token.MUL:
		return "MUL"
	case token.POW:
		return "POW"
	case token.QUO:
		return "QUO"
	case token.AND:
		return "AND"
	case token.OR:
		return "OR"
	case token.LAND:
		return "LAND"
	case token.LOR:
		return "LOR"
	case token.BIND:
		return "BIND"
	case token.EQL:
		return "EQL"
	case token.LSS:
		return "LSS"
	case token.GTR:
		return "GTR"
	case token.NOT:
		return "NOT"
	case token.ARROW:
		return "ARROW"
	case token.NEQ:
		return "NEQ"
	case token.LEQ:
		return "LEQ"
	case token.GEQ:
		return "GEQ"
	case token.MAT:
		return "MAT"
	case token.NMAT:
		return "NMAT"
	case token.LPAREN:
		return "LPAREN"
	case token.LBRACK:
		return "LBRACK"
	case token.LBRACE:
		return "LBRACE"
	case token.COMMA:
		return "COMMA"
	case token.PERIOD:
		return "PERIOD"
	case token.ELLIPSIS:
		return "ELLIPSIS"
	case token.RPAREN:
		return "RPAREN"
	case token.RBRACK:
		return "RBRACK"
	case token.RBRACE:
		return "RBRACE"
	case token.SEMICOLON:
		return "SEMICOLON"
	case token.COLON:
		return "COLON"
	case token.OPTION:
		return "OPTION"
	case token.TILDE:
		return "TILDE"
	}
	return "UNKNOWN" + strconv.Itoa(int(t))
}

type c09Tok struct {
	kind     string
	off, fin int
	lit      string
	err      bool
}

// c09ScanAll runs the client loop on the real scanner.
func c09ScanAll(src []byte, mode scanner.Mode) (initErr bool, toks []c09Tok, panicked string) {
	defer func() {
		if e := recover(); e != nil {
			panicked = fmt.Sprint(e)
		}
	}()
	f := token.NewFile("c09.cue", -1, len(src))
	nerr := 0
	var s scanner.Scanner
	s.Init(f, src, func(pos token.Pos, msg string, args []interface{}) { nerr++ }, mode)
	initErr = nerr > 0
	var ds []int // parenthesis depth per open interpolation, innermost last
	for i := 0; i < 3*len(src)+4; i++ {
		before := nerr
		pos, tok, lit := s.Scan()
		toks = append(toks, c09Tok{c09KindName(tok), pos.Offset(), s.Offset(), lit, nerr > before})
		if tok == token.EOF {
			return
		}
		if len(ds) == 0 {
			if tok == token.INTERPOLATION {
				ds = append(ds, 0)
			}
			continue
		}
		switch tok {
		case token.INTERPOLATION:
			ds = append(ds, 0)
		case token.LPAREN:
			ds[len(ds)-1]++
		case token.RPAREN:
			if ds[len(ds)-1] > 1 {
				ds[len(ds)-1]--
				continue
			}
			ds = ds[:len(ds)-1]
			before := nerr
			off := s.Offset() - 1
			var seg string
			resumed := func() (ok bool) {
				defer func() {
					if e := recover(); e != nil {
						ok = false
					}
				}()
				seg = s.ResumeInterpolation()
				return true
			}()
			if !resumed {
				// ResumeInterpolation with an empty quote stack: index out of range
				toks = append(toks, c09Tok{"PANIC", 0, 0, "", false})
				return
			}
			toks = append(toks, c09Tok{"RESUME", off, s.Offset(), seg, nerr > before})
			if strings.HasSuffix(seg, "(") {
				ds = append(ds, 0)
			}
		}
	}
	toks = append(toks, c09Tok{"FUEL", 0, 0, "", false})
	return
}

func c09ScanCase(c *Cfg, src []byte, mode scanner.Mode, origin string) {
	initErr, toks, pan := c09ScanAll(src, mode)
	m := ""
	if mode&scanner.ScanComments != 0 {
		m += "1"
	} else {
		m += "0"
	}
	if mode&scanner.DontInsertCommas != 0 {
		m += "1"
	} else {
		m += "0"
	}
	c.Direct(pan == "", "scanner-panic", "cue/scanner panics: "+pan+" ["+origin+"]", map[string]string{"src_hex": H(string(src)), "mode": m})
	var sb strings.Builder
	if initErr {
		sb.WriteString("1")
	} else {
		sb.WriteString("0")
	}
	prevFin, prevOff := 0, 0
	prevAuto := false
	okOrder, okRange, okProgress, okEOF := true, true, true, len(toks) > 0 && (toks[len(toks)-1].kind == "EOF" || toks[len(toks)-1].kind == "PANIC")
	nerrs := 0
	for i, t := range toks {
		e := 0
		if t.err {
			e = 1
			nerrs++
		}
		fmt.Fprintf(&sb, " %s:%d:%d:%s:%d", t.kind, t.off, t.fin, H(t.lit), e)
		if t.kind == "PANIC" || t.kind == "FUEL" {
			continue
		}
		c.Count("scan/tok-" + t.kind)
		if t.off < 0 || t.off > len(src) || t.fin < t.off || t.fin > len(src) {
			okRange = false
		}
		if i > 0 && t.kind != "RESUME" {
			if t.off < prevOff || t.off < prevFin {
				okOrder = false
			}
			// progress: a call consumes at least one byte, except the automatic comma (once)
			// and EOF
			auto := t.kind == "COMMA" && t.lit == "\n"
			if t.fin == prevFin && t.kind != "EOF" && !(auto && !prevAuto) {
				okProgress = false
			}
			prevAuto = auto && t.fin == prevFin
		}
		prevFin, prevOff = t.fin, t.off
	}
	if pan == "" {
		rep := map[string]string{"src_hex": H(string(src)), "src": strconv.QuoteToASCII(string(src)), "mode": m, "origin": origin}
		c.Direct(okRange, "token-outside-input", "a token offset lies outside the input ["+origin+"]", rep)
		c.Direct(okOrder, "token-order", "token offsets decrease or overlap ["+origin+"]", rep)
		c.Direct(okProgress, "scan-no-progress", "a Scan call neither consumed input nor returned the automatic comma/EOF ["+origin+"]", rep)
		c.Direct(okEOF, "scan-no-eof", "the scan loop did not reach EOF within 3*len+4 calls ["+origin+"]", rep)
	}
	// the property's own comma rule on the implementation: an automatic comma follows only a
	// token of the spec's list (doc/ref/spec.md §Commas) — or ';' / an attribute (the known
	// divergence, replayed separately), or an ILLEGAL token (which keeps the pending comma)
	if pan == "" && mode&scanner.DontInsertCommas == 0 {
		okComma := true
		var after string
		for i, t := range toks {
			if i == 0 || !(t.kind == "COMMA" && t.lit == "\n") {
				continue
			}
			switch p := toks[i-1].kind; p {
			case "IDENT", "KEYWORD", "BOTTOM", "INT", "FLOAT", "STRING", "INTERPOLATION", "RESUME", "RPAREN", "RBRACK", "RBRACE", "OPTION", "ELLIPSIS",
				"SEMICOLON", "ATTRIBUTE", "ILLEGAL":
			default:
				okComma, after = false, p
			}
		}
		c.Direct(okComma, "comma-rule", "an automatic comma follows a "+after+" token ["+origin+"]", map[string]string{"src_hex": H(string(src)), "src": strconv.QuoteToASCII(string(src)), "mode": m})
	}
	line := "scan " + m + " " + H(string(src)) + " " + c09IdentClasses(string(src))
	c.Op(c09ScanClass, line, sb.String())
	c.Case(line, len(toks) > 1)
	if nerrs > 0 || initErr {
		c.Count("scan/" + origin + "/with-errors")
	} else {
		c.Count("scan/" + origin + "/clean")
	}
	c.Count("scan/mode-" + m)
}

var c09ScanToks = []string{
	"a", "_", "#", "##", "_#a", "__#x", "#a", "$", "if", "null", "é", "٣", "1", "0", "0x", "1.5e", ".5", "1..", "0b12", "1K", "..", "...", ".",
	`"`, `'`, `"""`, `'''`, `#"`, `"#`, `##"`, `"##`, `#"""`, `"""#`, "\"\"\"\n", "\n\"\"\"", "\n  \"\"\"", "'''\n", `\`, `\(`, `\#(`, `\##(`, `\n`, `\u00e9`, `\U0010FFFF`, `\ud800`, `\x41`, `\101`, `\q`, `\"`, `\#n`,
	"(", ")", "[", "]", "{", "}", ",", ":", ";", "?", "~", "!", "=", "<", ">", "-", "+", "*", "/", "&", "|", "=~", "!~", "<-", "<=", "==", "&&", "||", "%", "^", "`",
	"@", "@a", "@a(", "@a(b)", "@a(b,c=\"d\")", "@x([{)", "//", "// c", "//\r\n", "/", " ", "  ", "\t", "\n", "\n\n", "\r", "\r\n", "\x00", "\x80", "\xff", "\xe2\x82", "\ufeff", "\u2028", "\u00a0", "本",
}

func c09ScanStreamRun(c *Cfg, r *Rng) {
	type job struct {
		src    []byte
		mode   scanner.Mode
		origin string
	}
	jobs := make(chan job, 256)
	var wg sync.WaitGroup
	for w := 0; w < 8; w++ {
		wg.Add(1)
		go func() {
			defer wg.Done()
			for j := range jobs {
				c09ScanCase(c, j.src, j.mode, j.origin)
			}
		}()
	}
	pickMode := func(rr *Rng) scanner.Mode {
		switch rr.Intn(8) {
		case 0, 1, 2:
			return scanner.ScanComments
		case 3:
			return scanner.DontInsertCommas
		case 4:
			return scanner.DontInsertCommas | scanner.ScanComments
		}
		return 0
	}
	// the witnesses of C09_comma_rule_false replayed on the implementation (known finding)
	for _, w := range []struct{ src, kind string }{{";\nb", "SEMICOLON"}, {"@a()\nb", "ATTRIBUTE"}} {
		_, toks, _ := c09ScanAll([]byte(w.src), 0)
		diverges := len(toks) >= 2 && toks[0].kind == w.kind && toks[1].kind == "COMMA" && toks[1].lit == "\n"
		c.Direct(!diverges, "comma-after-token-not-in-spec", "the scanner inserts a comma after a "+w.kind+" token at the end of a line; doc/ref/spec.md §Commas does not list it",
			map[string]string{"src": strconv.QuoteToASCII(w.src)})
	}
	// (0) fixed boundary inputs
	fixed := []string{
		"", "\n", "a", "a\n", "a //c\nb", "a //c", "a\n,b", "a\n:b", "a\n \n,b", "a,\nb", "{a:1}\n", "a ? \n", "a;\n", "@a(b)\n", "...\n", "..\n", "_|_\n", "__#a\n", "##a", "#\"x\"#", "#\"\"\"#", "##\"\"##", "#\"\"x\"\"#",
		"\"\\(a)\"", "\"\\(a)(", "\"\\()\\(\"x\")\"", "\"a\\(b + \"c\\(d)e\")f\"", "\"\"\"\n\ta\\(x)\n\t\"\"\"", "\"\"\"\n  a\n b\n  \"\"\"", "\"\"\"\r\n  a\r\n  \"\"\"", "\"\"\"x", "\"\"\"\rx", "'\\x41\\101'", "\"\\x41\"", "\"\\u12\"", "\"\\U00110000\"",
		"@a(\"\\(x)\")", "@a(b\n)", "@a", "@a(", "@a(]", "@(", "a @b()\n@c", "\ufeffa", "a\ufeff", "\x00", "a\x00b", "\xff", "1\xff", "é٣", "a/b//c", "a / /", "<-<=<<", "=~==~", "!~!=!", "&&&|||", "1.5..2", "0..1", ".5.5", "1e+", "0x", "a.b", "a\r\nb\r\n",
		"\"\"\"\n  é\n  \"\"\"", "\"\"\"\n  \"\"x\n  \"\"\"", "\"\"\"\n \\\n \"\"\"", "\"a\nb\"", "'a", "\"a\\", "\"\\", "#\"a\\#\nb\"#", "\"\"\"\n\ta\n  \"\"\"",
	}
	for _, s := range fixed {
		for _, m := range []scanner.Mode{0, scanner.ScanComments, scanner.DontInsertCommas} {
			jobs <- job{[]byte(s), m, "fixed"}
		}
	}
	// (1) corpus files
	corpus := c09Corpus(c)
	idx := make([]int, len(corpus))
	for i := range idx {
		idx[i] = i
	}
	Shuffle(r, idx)
	nc, maxLen := 0, c.Pick(5000, 12000)
	for _, i := range idx {
		if nc >= c.Pick(250, 3000) {
			break
		}
		if len(corpus[i]) <= maxLen {
			jobs <- job{corpus[i], pickMode(r), "corpus"}
			nc++
		}
	}
	// (2) byte-level mutations of corpus windows
	special := []string{"\"", "'", "\\", "#", "(", ")", "\n", "\"\"\"", "\\(", ",", "\x00", "\x80", "\xff", "\ufeff", "//", "...", "@", "\r", "_|_", "__#", ".", "0x", "'''"}
	nMut := c.Pick(2500, 60000)
	if c.Focus {
		nMut *= 3
	}
	for i := 0; i < nMut && len(corpus) > 0; i++ {
		rr := r.Sub()
		src := corpus[rr.Intn(len(corpus))]
		if len(src) > 1200 {
			o := rr.Intn(len(src) - 1200)
			src = src[o : o+1200]
		}
		b := append([]byte{}, src...)
		for k, nm := 0, 1+rr.Intn(3); k < nm && len(b) > 0; k++ {
			p := rr.Intn(len(b))
			switch rr.Intn(5) {
			case 0:
				b = b[:p]
			case 1:
				q := min(p+rr.Intn(8), len(b))
				b = append(b[:p:p], b[q:]...)
			case 2:
				t := Pick(rr, special)
				b = append(b[:p:p], append([]byte(t), b[p:]...)...)
			case 3:
				b[p] = byte(rr.Intn(256))
			case 4:
				b = b[p:]
			}
		}
		jobs <- job{b, pickMode(rr), "mutation"}
	}
	// (3) token soups
	nSoup := c.Pick(12000, 300000)
	if c.Focus {
		nSoup *= 3
	}
	for i := 0; i < nSoup; i++ {
		rr := r.Sub()
		var sb strings.Builder
		for j, k := 0, 1+rr.Intn(10); j < k; j++ {
			if rr.Chance(1, 4) {
				sb.WriteString(Pick(rr, c09SoupToks))
			} else {
				sb.WriteString(Pick(rr, c09ScanToks))
			}
		}
		jobs <- job{[]byte(sb.String()), pickMode(rr), "soup"}
	}
	// (4) exhaustive short soups
	small := []string{"a", "#", "\"", "'", "\\", "(", ")", "\n", "/", ".", "_", "1", "@", " ", "\r", "\"\"\"", "|", "é", ","}
	depth := c.Pick(3, 4)
	var rec func(p string, d int)
	rec = func(p string, d int) {
		jobs <- job{[]byte(p), scanner.ScanComments, "exhaustive-soup"}
		if d == 0 {
			return
		}
		for _, t := range small {
			rec(p+t, d-1)
		}
	}
	rec("", depth)
	close(jobs)
	wg.Wait()
}
