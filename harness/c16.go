package main

// C16 — "the module cache never serves a partial download, whatever crashes or races".
//
// The parent process builds an in-memory OCI registry holding three module versions,
// serves it over HTTP on localhost (with fault injection, latency and per-worker request
// counting) and runs every real modcache.Fetch / ModFile / FetchFromCache in CHILD
// processes (this same binary, `-replay worker:<base64 spec>`), which can be killed at
// any hook point (VERIF_CRASH_AT) and which record hook traces with on-disk snapshots.
//
// Protocol lines (see the Lean driver CueVerif/Driver/C16.lean):
//
//	I trace <kind> <n> <fault> <init-snap> <ret> <hook>=<snap> ...     -> ok <#events>
//	I crashat <kind> <n> <init-snap> <k>                               -> <snap> | done
//	O safe <n> <snap>                                                  -> true
//	O fromcache <n> <snap>                                             -> avail | err
//	I trace fromcache <n> none <snap> <ret> [<hook>=<snap>]            -> ok <#events>
//	I trace2 <n> <reader-kind> <init-snap> <role>:<hook>=<snap> ... <role>:ret:<r>=<snap>
//	                                                                   -> ok <#events>
//	  (a two-thread history under a forced schedule, see c16ILChild)
//
// Snapshot text: d<D>,m<M>,z<Z>,t<T>,l<L>,f<F>,u<U> (see c16Snapshot).

import (
	"bytes"
	"context"
	"encoding/base64"
	"encoding/binary"
	"encoding/json"
	"errors"
	"fmt"
	"io"
	"io/fs"
	"net/http"
	"net/http/httptest"
	"os"
	"os/exec"
	"os/signal"
	"path"
	"path/filepath"
	"runtime"
	"sort"
	"strconv"
	"strings"
	"sync"
	"syscall"
	"time"

	"cuelabs.dev/go/oci/ociregistry"
	"cuelabs.dev/go/oci/ociregistry/ociclient"
	"cuelabs.dev/go/oci/ociregistry/ocimem"
	"cuelabs.dev/go/oci/ociregistry/ociserver"
	digest "github.com/opencontainers/go-digest"

	"cuelang.org/go/internal/verifhook"
	"cuelang.org/go/mod/modcache"
	"cuelang.org/go/mod/modregistry"
	"cuelang.org/go/mod/module"
	"cuelang.org/go/mod/modzip"
)

func init() { props["C16"] = runC16 }

func runC16(c *Cfg) {
	if strings.HasPrefix(c.Replay, "worker:") {
		c16Child(c)
		return
	}
	c16ParentMain(c)
}

const (
	c16EmptySnap    = "d-,m0,z-,t-,l0,f-,u-"
	c16ChildTimeout = 180 * time.Second // safety net only; reported as Direct class "timeout"
	c16WorkerHeader = "X-Verif-Worker"
)

// ---- deterministic module set ----------------------------------------------------------

type c16Mod struct {
	Idx       int
	MV        module.Version
	Names     []string          // sorted relative slash-separated file names
	Files     map[string][]byte // name -> content as it appears in the extraction dir
	Zip       []byte
	ModCue    []byte
	ZipDigest string
	ModDigest string
	esc       string // module.EscapePath(BasePath)
	escVer    string // module.EscapeVersion(Version)
}

func (m *c16Mod) N() int { return len(m.Names) }

type c16File struct {
	name string
	data []byte
}

type c16FileIO struct{}

func (c16FileIO) Path(f c16File) string                { return f.name }
func (c16FileIO) Lstat(f c16File) (os.FileInfo, error) { return c16FileInfo{f}, nil }
func (c16FileIO) Open(f c16File) (io.ReadCloser, error) {
	return io.NopCloser(bytes.NewReader(f.data)), nil
}

type c16FileInfo struct{ f c16File }

func (i c16FileInfo) Name() string       { return path.Base(i.f.name) }
func (i c16FileInfo) Size() int64        { return int64(len(i.f.data)) }
func (i c16FileInfo) Mode() fs.FileMode  { return 0o644 }
func (i c16FileInfo) ModTime() time.Time { return time.Time{} }
func (i c16FileInfo) IsDir() bool        { return false }
func (i c16FileInfo) Sys() any           { return nil }

// c16Content returns size bytes of poorly compressible text (never empty).
func c16Content(r *Rng, size int) []byte {
	const alpha = "abcdefghijklmnopqrstuvwxyzABCDEFGHIJKLMNOPQRSTUVWXYZ0123456789+/"
	if size < 1 {
		size = 1
	}
	b := make([]byte, 0, size+8)
	b = append(b, "// "...)
	col := 3
	for len(b) < size {
		if col >= 96 {
			b = append(b, "\n// "...)
			col = 3
			continue
		}
		v := r.U64()
		for i := 0; i < 10 && len(b) < size; i++ {
			b = append(b, alpha[v&63])
			v >>= 6
			col++
		}
	}
	b = b[:size]
	b[size-1] = '\n'
	return b
}

// c16Modules returns the module versions, identical in parent and child.
var c16Defs = []struct {
	path, ver string
	files     []string
	big       string
}{
	// primary versions (every phase works on them): one module path, version strings in a
	// string-prefix relation, so their extraction directories `foo@v0.0.1`, `foo@v0.0.10`,
	// `foo@v0.0.1-rc.1` are siblings whose names are prefixes of one another
	{"example.com/foo@v0", "v0.0.1", []string{"a.cue", "b.cue"}, "a.cue"},
	{"example.com/foo@v0", "v0.0.10", []string{"x.cue", "big.cue", "dir1/y.cue", "dir1/dir2/z.cue", "other/w.cue"}, "big.cue"},
	{"example.com/foo@v0", "v0.0.1-rc.1", []string{"a.cue", "c.cue", "sub/d.cue"}, "sub/d.cue"},
	// bystanders: present (complete) in the cache while a primary version is worked on
	{"example.com/foo@v0", "v0.0.11", []string{"a.cue", "e.cue"}, ""},
	{"example.com/foobar@v0", "v0.0.1", []string{"a.cue", "f.cue"}, ""},
	// probes for the `.tmp-` sibling cleanup: "v0.0.1-a.tmp-x" is a valid version whose
	// directory name starts with the cleanup prefix of "v0.0.1-a"
	{"example.com/q@v0", "v0.0.1-a", []string{"a.cue"}, ""},
	{"example.com/q@v0", "v0.0.1-a.tmp-x", []string{"a.cue", "g.cue"}, ""},
	// … and "v0.0.1-a.tmp-1": also a valid version, of the form `.tmp-<digits>` the legacy
	// temporary directories had
	{"example.com/q@v0", "v0.0.1-a.tmp-1", []string{"a.cue", "h.cue"}, ""},
}

const (
	c16NPrimary = 3 // modules 0..2: subject of every phase
	c16NRegular = 5 // modules 0..4: may share a cache; 5, 6 and 7 are the `.tmp-` probes
)

func c16Modules(seed uint64) []*c16Mod {
	r := NewRng(seed ^ 0xC16C16C16)
	var out []*c16Mod
	for i, d := range c16Defs {
		mr := r.Sub()
		files := map[string][]byte{}
		// The trailing comment makes the module-file blob (and so its digest) distinct
		// for two versions of the same module path.
		files["cue.mod/module.cue"] = []byte(fmt.Sprintf("module: %q\nlanguage: version: \"v0.8.0\"\n// %s\n", d.path, d.ver))
		for _, name := range d.files {
			size := 1 + mr.Intn(3000)
			if name == d.big {
				size = 48_000 + mr.Intn(16_000)
			}
			files[name] = c16Content(mr, size)
		}
		out = append(out, c16FinishMod(i, files, nil))
	}
	return out
}

// c16FinishMod completes module number idx of c16Defs from its files; the zip is built
// with modzip.Create unless it is given.
func c16FinishMod(idx int, fileMap map[string][]byte, zip []byte) *c16Mod {
	d := c16Defs[idx]
	mv := module.MustNewVersion(d.path, d.ver)
	m := &c16Mod{Idx: idx, MV: mv, Files: fileMap, ModCue: fileMap["cue.mod/module.cue"], Zip: zip}
	var files []c16File
	for name, data := range m.Files {
		m.Names = append(m.Names, name)
		files = append(files, c16File{name, data})
	}
	sort.Strings(m.Names)
	if m.Zip == nil {
		sort.Slice(files, func(a, b int) bool { return files[a].name < files[b].name })
		var buf bytes.Buffer
		if err := modzip.Create(&buf, mv, files, c16FileIO{}); err != nil {
			panic(fmt.Sprintf("C16: modzip.Create %v: %v", mv, err))
		}
		m.Zip = buf.Bytes()
	}
	m.ZipDigest = string(digest.FromBytes(m.Zip))
	m.ModDigest = string(digest.FromBytes(m.ModCue))
	var err error
	if m.esc, err = module.EscapePath(mv.BasePath()); err != nil {
		panic(err)
	}
	if m.escVer, err = module.EscapeVersion(mv.Version()); err != nil {
		panic(err)
	}
	return m
}

// c16EncodeMods / c16DecodeMods: the parent stores the generated module set in a file so
// that the (many) children need not regenerate and re-deflate it; a child that cannot read
// the file falls back to c16Modules(seed), which yields the same set.
func c16EncodeMods(ms []*c16Mod) []byte {
	var b []byte
	put := func(p []byte) {
		b = binary.LittleEndian.AppendUint32(b, uint32(len(p)))
		b = append(b, p...)
	}
	for _, m := range ms {
		b = binary.LittleEndian.AppendUint32(b, uint32(len(m.Names)))
		for _, name := range m.Names {
			put([]byte(name))
			put(m.Files[name])
		}
		put(m.Zip)
	}
	return b
}

func c16DecodeMods(b []byte) (ms []*c16Mod, ok bool) {
	defer func() {
		if recover() != nil {
			ms, ok = nil, false
		}
	}()
	u32 := func() int {
		v := binary.LittleEndian.Uint32(b)
		b = b[4:]
		return int(v)
	}
	get := func() []byte {
		n := u32()
		p := b[:n:n]
		b = b[n:]
		return p
	}
	for i := range c16Defs {
		files := map[string][]byte{}
		for n := u32(); n > 0; n-- {
			name := string(get())
			files[name] = get()
		}
		zip := get()
		if len(files) != len(c16Defs[i].files)+1 || len(zip) == 0 {
			return nil, false
		}
		ms = append(ms, c16FinishMod(i, files, zip))
	}
	return ms, len(b) == 0
}

// ---- on-disk snapshot (shared by parent and child) -------------------------------------

func (m *c16Mod) vdir(cacheDir string) string {
	return filepath.Join(cacheDir, "mod", "download", m.esc, "@v")
}

func (m *c16Mod) xdir(cacheDir string) string {
	return filepath.Join(cacheDir, "mod", "extract", m.esc+"@"+m.escVer)
}

func c16FileClass(file string, want []byte) string {
	data, err := os.ReadFile(file)
	if err != nil {
		if os.IsNotExist(err) {
			return "-"
		}
		return "p"
	}
	if bytes.Equal(data, want) {
		return "f"
	}
	return "p"
}

func c16TmpClass(vdir, prefix string, want []byte) string {
	ents, _ := os.ReadDir(vdir)
	var letters []string
	for _, e := range ents {
		name := e.Name()
		if len(name) > len(prefix)+4 && strings.HasPrefix(name, prefix) && strings.HasSuffix(name, ".tmp") {
			cl := c16FileClass(filepath.Join(vdir, name), want)
			if cl == "-" { // vanished meanwhile
				continue
			}
			letters = append(letters, cl)
		}
	}
	if len(letters) == 0 {
		return "-"
	}
	sort.Strings(letters)
	return strings.Join(letters, "")
}

func c16LockHeld(lockFile string) string {
	fd, err := syscall.Open(lockFile, syscall.O_RDWR|syscall.O_CLOEXEC, 0)
	if err != nil {
		return "0"
	}
	defer syscall.Close(fd)
	for {
		err = syscall.Flock(fd, syscall.LOCK_EX|syscall.LOCK_NB)
		if err != syscall.EINTR {
			break
		}
	}
	if err == syscall.EWOULDBLOCK {
		return "1"
	}
	if err == nil {
		syscall.Flock(fd, syscall.LOCK_UN)
	}
	return "0"
}

func c16DirClass(xdir string, m *c16Mod) string {
	fi, err := os.Lstat(xdir)
	if err != nil {
		if os.IsNotExist(err) {
			return "-"
		}
		return "0b"
	}
	if !fi.IsDir() {
		return "0b"
	}
	k, plus, bad := 0, 0, false
	filepath.WalkDir(xdir, func(p string, d fs.DirEntry, err error) error {
		if err != nil {
			bad = true
			return nil
		}
		if d.IsDir() {
			return nil
		}
		rel, rerr := filepath.Rel(xdir, p)
		if rerr != nil {
			bad = true
			return nil
		}
		want, ok := m.Files[filepath.ToSlash(rel)]
		if !ok || !d.Type().IsRegular() {
			bad = true
			return nil
		}
		data, rerr := os.ReadFile(p)
		switch {
		case rerr != nil:
			bad = true
		case bytes.Equal(data, want):
			k++
		case len(data) < len(want) && bytes.HasPrefix(want, data):
			plus++
		default:
			bad = true
		}
		return nil
	})
	q := "g"
	if bad {
		q = "b"
	}
	return fmt.Sprintf("%d%s%s", k, strings.Repeat("+", plus), q)
}

// c16Snapshot returns the canonical state text of one module version in a cache dir.
func c16Snapshot(cacheDir string, m *c16Mod) string {
	vdir := m.vdir(cacheDir)
	D := c16DirClass(m.xdir(cacheDir), m)
	M := "0"
	if _, err := os.Lstat(filepath.Join(vdir, m.escVer+".partial")); err == nil {
		M = "1"
	}
	Z := c16FileClass(filepath.Join(vdir, m.escVer+".zip"), m.Zip)
	T := c16TmpClass(vdir, m.escVer+".zip", m.Zip)
	L := c16LockHeld(filepath.Join(vdir, m.escVer+".lock"))
	F := c16FileClass(filepath.Join(vdir, m.escVer+".mod"), m.ModCue)
	U := c16TmpClass(vdir, m.escVer+".mod", m.ModCue)
	return fmt.Sprintf("d%s,m%s,z%s,t%s,l%s,f%s,u%s", D, M, Z, T, L, F, U)
}

// c16Field returns the value of one snapshot field (letter d,m,z,t,l,f,u).
func c16Field(snap string, letter byte) string {
	for _, f := range strings.Split(snap, ",") {
		if len(f) > 0 && f[0] == letter {
			return f[1:]
		}
	}
	return "?"
}

// c16LocalSafe is the property's own predicate on a snapshot: nothing partial at a final
// name, and the extraction directory counts as available only when complete.
func c16LocalSafe(n int, snap string) bool {
	if c16Field(snap, 'z') == "p" || c16Field(snap, 'f') == "p" {
		return false
	}
	d := c16Field(snap, 'd')
	if d != "-" && c16Field(snap, 'm') == "0" && d != fmt.Sprintf("%dg", n) {
		return false
	}
	return true
}

// ---- child worker ------------------------------------------------------------------------

type c16Job struct {
	Kind      string // fetch | modfile | fromcache
	Mod       int
	Goroutine int
	// Fresh makes the job use its own newly created Cache (and registry client) instead of
	// the process-wide one: as good as a fresh process for the stateless FetchFromCache,
	// at a fraction of the cost (process creation is what dominates the run time).
	Fresh bool `json:",omitempty"`
	// Dir (with Fresh) makes the job work on another cache directory than Spec.CacheDir, so
	// that one worker process can serve many independent cases (batched recovery runs).
	Dir string `json:",omitempty"`
}

type c16Spec struct {
	Host        string
	CacheDir    string
	Seed        uint64
	WorkerID    string
	Jobs        []c16Job
	Trace       bool
	PauseAt     string
	PauseNth    int
	PauseMs     int
	ReachedFile string
	// ReleaseFile: when set, the pause ends as soon as this file exists (PauseMs is then
	// only the upper bound), so that the overlap does not depend on process start-up times.
	ReleaseFile string `json:",omitempty"`
	// StartedFile is written when the worker is initialised, right before it runs its jobs
	// (or, with GateFile, before it waits for the gate); GateFile, when set, must exist
	// before the jobs start (waiting at most GateMs).
	StartedFile string `json:",omitempty"`
	GateFile    string `json:",omitempty"`
	GateMs      int    `json:",omitempty"`
	// ModsFile optionally holds the encoded module set of Seed (see c16EncodeMods).
	ModsFile string `json:",omitempty"`
	// IL, when set, makes the worker run the controlled-interleaving stage (see c16ILChild).
	IL *c16ILSpec `json:",omitempty"`
}

type c16Result struct {
	Kind     string
	Mod      int
	Ok       bool
	Err      string // "" | "err" | "panic"
	NotFound bool   // fromcache: the error is modregistry.ErrNotFound
	Verdict  string // "equal" or the first difference
	ErrText  string // diagnostics only; never part of a protocol line
	Pre      string // traced sequential runs: snapshot taken right before the job
	// Events: traced sequential runs: the hook points THIS job passed (a FetchFromCache
	// passes downloaddir.between-stats when the directory exists).
	Events []c16Event `json:",omitempty"`
}

type c16Event struct {
	Hook string
	Snap string
}

type c16Out struct {
	Results []c16Result
	Init    string
	Events  []c16Event
}

type c16Transport struct {
	id   string
	base http.RoundTripper
}

func (t *c16Transport) RoundTrip(req *http.Request) (*http.Response, error) {
	req = req.Clone(req.Context())
	req.Header.Set(c16WorkerHeader, t.id)
	return t.base.RoundTrip(req)
}

// c16CompareLoc compares the content of a returned location with the expected files.
func c16CompareLoc(loc module.SourceLoc, m *c16Mod) string {
	if loc.FS == nil {
		return "nil FS"
	}
	got := map[string][]byte{}
	root := loc.Dir
	if root == "" {
		root = "."
	}
	err := fs.WalkDir(loc.FS, root, func(p string, d fs.DirEntry, err error) error {
		if err != nil {
			return err
		}
		if d.IsDir() {
			return nil
		}
		data, err := fs.ReadFile(loc.FS, p)
		if err != nil {
			return err
		}
		rel := p
		if root != "." {
			rel = strings.TrimPrefix(strings.TrimPrefix(p, root), "/")
		}
		got[rel] = data
		return nil
	})
	if err != nil {
		return "walk error"
	}
	names := map[string]bool{}
	for n := range got {
		names[n] = true
	}
	for n := range m.Files {
		names[n] = true
	}
	all := make([]string, 0, len(names))
	for n := range names {
		all = append(all, n)
	}
	sort.Strings(all)
	for _, n := range all {
		g, okg := got[n]
		w, okw := m.Files[n]
		switch {
		case !okg:
			return "missing file " + n
		case !okw:
			return "extra file " + n
		case !bytes.Equal(g, w):
			return "content differs in " + n
		}
	}
	return "equal"
}

// c16WaitFile waits until file exists, at most max (file == "": just sleeps max).
// It only shapes schedules; no verdict depends on it.
func c16WaitFile(file string, max time.Duration) bool {
	if file == "" {
		time.Sleep(max)
		return false
	}
	deadline := time.Now().Add(max)
	for {
		if _, err := os.Stat(file); err == nil {
			return true
		}
		if !time.Now().Before(deadline) {
			return false
		}
		time.Sleep(time.Millisecond)
	}
}

func c16Child(c *Cfg) {
	fail := func(msg string) {
		fmt.Fprintln(os.Stderr, "C16 worker:", msg)
		os.Exit(3)
	}
	var raw []byte
	var err error
	if f, ok := strings.CutPrefix(c.Replay, "worker:@"); ok {
		raw, err = os.ReadFile(f)
	} else {
		raw, err = base64.StdEncoding.DecodeString(strings.TrimPrefix(c.Replay, "worker:"))
	}
	if err != nil {
		fail("bad spec encoding: " + err.Error())
	}
	var spec c16Spec
	if err := json.Unmarshal(raw, &spec); err != nil {
		fail("bad spec: " + err.Error())
	}
	var mods []*c16Mod
	if spec.ModsFile != "" {
		if data, err := os.ReadFile(spec.ModsFile); err == nil {
			mods, _ = c16DecodeMods(data)
		}
	}
	if mods == nil {
		mods = c16Modules(spec.Seed)
	}
	if spec.IL != nil {
		c16ILChild(&spec, mods)
		return
	}
	reg, err := ociclient.New(spec.Host, &ociclient.Options{
		Insecure:  true,
		Transport: &c16Transport{id: spec.WorkerID, base: http.DefaultTransport},
	})
	if err != nil {
		fail("ociclient.New: " + err.Error())
	}
	cache, err := modcache.New(modregistry.NewClient(reg), spec.CacheDir)
	if err != nil {
		fail("modcache.New: " + err.Error())
	}
	// Tracing: all jobs run sequentially (one goroutine) and exactly one of them is not a
	// fromcache job; that one is the traced job (FetchFromCache passes no hook point).
	traced := -1
	sequential := true
	for i, j := range spec.Jobs {
		if j.Mod < 0 || j.Mod >= len(mods) {
			fail("bad module index")
		}
		if j.Goroutine != spec.Jobs[0].Goroutine {
			sequential = false
		}
		if j.Kind != "fromcache" || len(spec.Jobs) == 1 {
			if traced >= 0 {
				traced = -2
			} else if traced == -1 {
				traced = i
			}
		}
	}
	out := &c16Out{Results: make([]c16Result, len(spec.Jobs)), Events: []c16Event{}}
	tracing := spec.Trace && sequential
	if spec.Trace && !tracing {
		fail("Trace needs sequential jobs")
	}
	jobEvents := make([][]c16Event, len(spec.Jobs))
	curJob := -1 // tracing runs are sequential: the job whose hooks are being recorded
	jobDir := func(i int) string {
		if spec.Jobs[i].Dir != "" {
			return spec.Jobs[i].Dir
		}
		return spec.CacheDir
	}
	if tracing || spec.PauseAt != "" {
		var mu sync.Mutex
		seen := map[string]int{}
		verifhook.SetHook(func(name string) {
			mu.Lock()
			seen[name]++
			nth := seen[name]
			if tracing && curJob >= 0 {
				jobEvents[curJob] = append(jobEvents[curJob], c16Event{name, c16Snapshot(jobDir(curJob), mods[spec.Jobs[curJob].Mod])})
			}
			mu.Unlock()
			if spec.PauseAt != "" && name == spec.PauseAt && nth == spec.PauseNth {
				if spec.ReachedFile != "" {
					os.WriteFile(spec.ReachedFile, []byte("reached\n"), 0o666)
				}
				c16WaitFile(spec.ReleaseFile, time.Duration(spec.PauseMs)*time.Millisecond)
			}
		})
	}
	if spec.StartedFile != "" {
		os.WriteFile(spec.StartedFile, []byte("started\n"), 0o666)
	}
	if spec.GateFile != "" {
		c16WaitFile(spec.GateFile, time.Duration(spec.GateMs)*time.Millisecond)
	}

	ctx := context.Background()
	runJob := func(i int) {
		j := spec.Jobs[i]
		m := mods[j.Mod]
		res := c16Result{Kind: j.Kind, Mod: j.Mod}
		cache := cache
		dir := jobDir(i)
		if j.Fresh {
			reg, err := ociclient.New(spec.Host, &ociclient.Options{
				Insecure:  true,
				Transport: &c16Transport{id: spec.WorkerID, base: http.DefaultTransport},
			})
			if err == nil {
				cache, err = modcache.New(modregistry.NewClient(reg), dir)
			}
			if err != nil {
				res.Err, res.ErrText = "err", "fresh cache: "+err.Error()
				out.Results[i] = res
				return
			}
		}
		if tracing {
			res.Pre = c16Snapshot(dir, m)
			if i == traced {
				out.Init = res.Pre
			}
			curJob = i
		}
		defer func() {
			if e := recover(); e != nil {
				res.Ok, res.Err, res.ErrText = false, "panic", fmt.Sprint(e)
			}
			if tracing {
				curJob = -1
				res.Events = jobEvents[i]
				if i == traced {
					out.Events = append(out.Events, jobEvents[i]...)
				}
			}
			out.Results[i] = res
		}()
		switch j.Kind {
		case "fetch", "fromcache":
			var loc module.SourceLoc
			var err error
			if j.Kind == "fetch" {
				loc, err = cache.Fetch(ctx, m.MV)
			} else {
				loc, err = cache.FetchFromCache(m.MV)
			}
			if err != nil {
				res.Err, res.ErrText = "err", err.Error()
				res.NotFound = errors.Is(err, modregistry.ErrNotFound)
				return
			}
			res.Ok = true
			res.Verdict = c16CompareLoc(loc, m)
		case "modfile":
			mf, err := cache.ModFile(ctx, m.MV)
			if err != nil {
				res.Err, res.ErrText = "err", err.Error()
				return
			}
			res.Ok = true
			switch {
			case mf == nil:
				res.Verdict = "nil module file"
			case mf.QualifiedModule() != m.MV.Path():
				res.Verdict = "module path differs"
			default:
				data, err := os.ReadFile(filepath.Join(m.vdir(dir), m.escVer+".mod"))
				switch {
				case err != nil:
					res.Verdict = "mod file missing on disk"
				case !bytes.Equal(data, m.ModCue):
					res.Verdict = "mod file content differs"
				default:
					res.Verdict = "equal"
				}
			}
		default:
			res.Err, res.ErrText = "err", "unknown job kind"
		}
	}
	groups := map[int][]int{}
	for i, j := range spec.Jobs {
		groups[j.Goroutine] = append(groups[j.Goroutine], i)
	}
	var wg sync.WaitGroup
	for _, idxs := range groups {
		wg.Add(1)
		go func(idxs []int) {
			defer wg.Done()
			for _, i := range idxs {
				runJob(i)
			}
		}(idxs)
	}
	wg.Wait()
	verifhook.SetHook(nil)
	b, _ := json.Marshal(out)
	os.Stdout.Write(append(b, '\n'))
}

// ---- registry server with faults, latency, counting --------------------------------------

type c16Fault struct {
	Kind  string // get | copy | short | modget
	Count int
}

type c16Server struct {
	inner  http.Handler
	mu     sync.Mutex
	counts map[string]map[string]int // worker -> digest -> blob GETs
	faults map[string]*c16Fault
	lat    map[string]*Rng
	zips   map[string][]byte // zip digest -> bytes
	isMod  map[string]bool   // module-file digests
}

func c16BlobDigest(req *http.Request) (string, bool) {
	if req.Method != http.MethodGet || !strings.HasPrefix(req.URL.Path, "/v2/") {
		return "", false
	}
	i := strings.LastIndex(req.URL.Path, "/blobs/")
	if i < 0 {
		return "", false
	}
	d := req.URL.Path[i+len("/blobs/"):]
	if !strings.Contains(d, ":") || strings.Contains(d, "/") {
		return "", false
	}
	return d, true
}

type c16CutWriter struct {
	http.ResponseWriter
	limit, n int
}

func (w *c16CutWriter) Write(p []byte) (int, error) {
	if w.n+len(p) >= w.limit {
		w.ResponseWriter.Write(p[:w.limit-w.n])
		if f, ok := w.ResponseWriter.(http.Flusher); ok {
			f.Flush()
		}
		panic(http.ErrAbortHandler) // cut the connection in the middle of the body
	}
	w.n += len(p)
	return w.ResponseWriter.Write(p)
}

func (s *c16Server) ServeHTTP(w http.ResponseWriter, req *http.Request) {
	worker := req.Header.Get(c16WorkerHeader)
	dg, isBlob := c16BlobDigest(req)
	var delay time.Duration
	fault := ""
	s.mu.Lock()
	if r := s.lat[worker]; r != nil {
		delay = time.Duration(r.Intn(16)) * time.Millisecond
	}
	if isBlob {
		if s.counts[worker] == nil {
			s.counts[worker] = map[string]int{}
		}
		s.counts[worker][dg]++
		if f := s.faults[worker]; f != nil && f.Count > 0 {
			_, isZip := s.zips[dg]
			if (f.Kind == "modget" && s.isMod[dg]) || (f.Kind != "modget" && isZip) {
				f.Count--
				fault = f.Kind
			}
		}
	}
	s.mu.Unlock()
	if delay > 0 {
		time.Sleep(delay)
	}
	switch fault {
	case "get", "modget":
		ociregistry.WriteError(w, errors.New("injected registry fault"))
	case "copy":
		s.inner.ServeHTTP(&c16CutWriter{ResponseWriter: w, limit: len(s.zips[dg]) / 2}, req)
	case "short":
		body := s.zips[dg]
		half := len(body) / 2
		w.Header().Set("Content-Type", "application/zip")
		w.Header().Set("Content-Length", fmt.Sprint(half))
		w.Header().Set("Docker-Content-Digest", dg)
		w.WriteHeader(http.StatusOK)
		w.Write(body[:half])
	default:
		s.inner.ServeHTTP(w, req)
	}
}

func (s *c16Server) setFault(worker, kind string, count int) {
	s.mu.Lock()
	s.faults[worker] = &c16Fault{kind, count}
	s.mu.Unlock()
}

func (s *c16Server) faultLeft(worker string) int {
	s.mu.Lock()
	defer s.mu.Unlock()
	if f := s.faults[worker]; f != nil {
		return f.Count
	}
	return 0
}

func (s *c16Server) setLatency(worker string, r *Rng) {
	s.mu.Lock()
	s.lat[worker] = r
	s.mu.Unlock()
}

func (s *c16Server) count(worker, dg string) int {
	s.mu.Lock()
	defer s.mu.Unlock()
	return s.counts[worker][dg]
}

// forget drops the bookkeeping of finished workers.
func (s *c16Server) forget(workers ...string) {
	s.mu.Lock()
	for _, w := range workers {
		delete(s.counts, w)
		delete(s.faults, w)
		delete(s.lat, w)
	}
	s.mu.Unlock()
}

// c16Env is one registry (one module-content seed) served on localhost.
type c16Env struct {
	template string // a cache holding every regular module version, completely fetched
	seed     uint64
	modsFile string
	mods     []*c16Mod
	srv      *c16Server
	hs       *httptest.Server
	host     string
}

func c16NewEnv(seed uint64, root string) (*c16Env, error) {
	e := &c16Env{seed: seed, mods: c16Modules(seed)}
	enc := c16EncodeMods(e.mods)
	if back, ok := c16DecodeMods(enc); ok && len(back) == len(e.mods) {
		same := true
		for i, m := range e.mods {
			same = same && bytes.Equal(back[i].Zip, m.Zip) && back[i].ZipDigest == m.ZipDigest && len(back[i].Files) == len(m.Files)
		}
		file := filepath.Join(root, fmt.Sprintf("mods-%d.bin", seed))
		if same && os.WriteFile(file, enc, 0o666) == nil {
			e.modsFile = file
		}
	}
	reg := ocimem.New()
	client := modregistry.NewClient(reg)
	srv := &c16Server{
		inner:  ociserver.New(reg, nil),
		counts: map[string]map[string]int{},
		faults: map[string]*c16Fault{},
		lat:    map[string]*Rng{},
		zips:   map[string][]byte{},
		isMod:  map[string]bool{},
	}
	for _, m := range e.mods {
		if err := client.PutModule(context.Background(), m.MV, bytes.NewReader(m.Zip), int64(len(m.Zip))); err != nil {
			return nil, fmt.Errorf("PutModule %v: %v", m.MV, err)
		}
		srv.zips[m.ZipDigest] = m.Zip
		srv.isMod[m.ModDigest] = true
	}
	e.srv = srv
	e.hs = httptest.NewServer(srv)
	e.host = strings.TrimPrefix(e.hs.URL, "http://")
	return e, nil
}

// ---- parent: child process management ----------------------------------------------------

type c16Parent struct {
	c        *Cfg
	root     string // all temp dirs live below
	exe      string
	safeSeen map[string]bool
	fcSeen   map[string]bool
}

type c16Run struct {
	Killed  bool
	Timeout bool
	Out     *c16Out
	Fail    string // non-empty when the child neither was killed nor produced its JSON
}

type c16Proc struct {
	cmd    *exec.Cmd
	stdout bytes.Buffer
	stderr bytes.Buffer
	ctx    context.Context
	cancel context.CancelFunc
	outDir string
	done   chan struct{}
	err    error
	t0     time.Time
}

func (p *c16Parent) start(spec c16Spec, crashAt int) *c16Proc {
	pr := &c16Proc{done: make(chan struct{}), t0: time.Now()}
	raw, _ := json.Marshal(spec)
	pr.outDir, _ = os.MkdirTemp(p.root, "out-")
	timeout := c16ChildTimeout
	if spec.IL != nil || len(spec.Jobs) > 40 {
		timeout = 10 * c16ChildTimeout // many schedules / batched jobs in one worker (still only a safety net)
	}
	pr.ctx, pr.cancel = context.WithTimeout(context.Background(), timeout)
	// small specs travel on the command line, big ones (batched recovery jobs) in a file
	arg := "worker:" + base64.StdEncoding.EncodeToString(raw)
	if len(arg) > 60_000 {
		f := filepath.Join(pr.outDir, "spec.json")
		if err := os.WriteFile(f, raw, 0o666); err == nil {
			arg = "worker:@" + f
		}
	}
	pr.cmd = exec.CommandContext(pr.ctx, p.exe, "C16",
		"-seed", fmt.Sprint(spec.Seed), "-tier", p.c.Tier, "-out", pr.outDir,
		"-replay", arg)
	var env []string
	for _, kv := range os.Environ() {
		if !strings.HasPrefix(kv, "VERIF_CRASH_AT=") {
			env = append(env, kv)
		}
	}
	if crashAt > 0 {
		env = append(env, fmt.Sprintf("VERIF_CRASH_AT=%d", crashAt))
	}
	// short-lived workers: a small scheduler and no garbage collection make start-up cheaper
	env = append(env, "GOMAXPROCS=4", "GOGC=off")
	pr.cmd.Env = env
	pr.cmd.Stdout = &pr.stdout
	pr.cmd.Stderr = &pr.stderr
	if err := pr.cmd.Start(); err != nil {
		pr.err = err
		close(pr.done)
		return pr
	}
	go func() {
		pr.err = pr.cmd.Wait()
		close(pr.done)
	}()
	return pr
}

func (pr *c16Proc) wait() c16Run {
	<-pr.done
	if os.Getenv("VERIF_C16_DEBUG") != "" {
		fmt.Fprintf(os.Stderr, "child %v user=%v sys=%v\n", time.Since(pr.t0).Round(time.Millisecond), pr.cmd.ProcessState.UserTime().Round(time.Millisecond), pr.cmd.ProcessState.SystemTime().Round(time.Millisecond))
	}
	timedOut := pr.ctx.Err() != nil
	pr.cancel()
	os.RemoveAll(pr.outDir)
	var run c16Run
	if timedOut {
		run.Timeout = true
		run.Fail = "timeout"
		return run
	}
	if pr.cmd.ProcessState != nil {
		if ws, ok := pr.cmd.ProcessState.Sys().(syscall.WaitStatus); ok && ws.Signaled() && ws.Signal() == syscall.SIGKILL {
			run.Killed = true
			return run
		}
	}
	if pr.err != nil {
		run.Fail = "child failed: " + pr.err.Error() + ": " + c16Clip(pr.stderr.String())
		return run
	}
	lines := strings.Split(strings.TrimSpace(pr.stdout.String()), "\n")
	var out c16Out
	if err := json.Unmarshal([]byte(lines[len(lines)-1]), &out); err != nil {
		run.Fail = "child output unreadable: " + c16Clip(pr.stdout.String()+pr.stderr.String())
		return run
	}
	run.Out = &out
	return run
}

func c16Clip(s string) string {
	if len(s) > 400 {
		return s[:400] + "…"
	}
	return s
}

// ---- parent: buffered, deterministic emission ---------------------------------------------

// c16Buf collects what one case wants to emit; buffers are flushed in case order so that
// ops.txt does not depend on scheduling.
type c16Buf struct {
	acts []func(p *c16Parent)
}

func (b *c16Buf) add(f func(p *c16Parent)) { b.acts = append(b.acts, f) }

func (b *c16Buf) Direct(ok bool, class, what string, replay any) {
	b.add(func(p *c16Parent) { p.c.Direct(ok, class, what, replay) })
}
func (b *c16Buf) Count(key string) { b.add(func(p *c16Parent) { p.c.Count(key) }) }

// IOp is an internal-correspondence op (skipped in -focus mode).
func (b *c16Buf) IOp(line, ans string) {
	b.add(func(p *c16Parent) {
		if !p.c.Focus {
			p.c.Op("I", line, ans)
		}
	})
}

// Safe emits `safe <n> <snap>` (deduplicated) and evaluates the local predicate.
func (b *c16Buf) Safe(n int, snap string, replay any) {
	b.add(func(p *c16Parent) {
		key := fmt.Sprintf("%d %s", n, snap)
		if p.safeSeen[key] {
			return
		}
		p.safeSeen[key] = true
		p.c.Op("O", "safe "+key, "true")
		p.c.Count("safe-ops")
		p.c.Direct(c16LocalSafe(n, snap), "unsafe-state",
			"on-disk state "+snap+" has a partial file at a final name or an incomplete directory that counts as available", replay)
	})
}

// FromCache emits the quiescent-state observation of FetchFromCache (deduplicated).
func (b *c16Buf) FromCache(n int, snap, ret string, events []c16Event) {
	b.add(func(p *c16Parent) {
		line := fmt.Sprintf("trace fromcache %d none %s %s", n, snap, ret)
		for _, e := range events {
			line += " " + e.Hook + "=" + e.Snap
		}
		if p.fcSeen[line] {
			return
		}
		p.fcSeen[line] = true
		// the observable (served or not) is property-level; the hook events only tie the model
		if key := fmt.Sprintf("fromcache %d %s", n, snap); !p.fcSeen[key] {
			p.fcSeen[key] = true
			p.c.Op("O", key, ret)
		}
		if !p.c.Focus {
			p.c.Op("I", line, fmt.Sprintf("ok %d", len(events)))
		}
		p.c.Count("fromcache-ops")
	})
}

// TraceOp emits one traced child run.
func (b *c16Buf) TraceOp(kind string, n int, fault, init, ret string, events []c16Event, replay any) {
	var sb strings.Builder
	fmt.Fprintf(&sb, "trace %s %d %s %s %s", kind, n, fault, init, ret)
	for _, e := range events {
		fmt.Fprintf(&sb, " %s=%s", e.Hook, e.Snap)
	}
	line := sb.String()
	b.add(func(p *c16Parent) {
		if !p.c.Focus {
			p.c.Op("I", line, fmt.Sprintf("ok %d", len(events)))
			p.c.Trace()
		}
		p.c.Case(line, len(events) >= 3 || init != c16EmptySnap)
		p.c.Count(fmt.Sprintf("trace kind=%s fault=%s ret=%s", kind, fault, ret))
	})
	for _, e := range events {
		b.Safe(n, e.Snap, replay)
	}
}

func (p *c16Parent) flush(bufs []*c16Buf) {
	for _, b := range bufs {
		if b == nil {
			continue
		}
		for _, f := range b.acts {
			f(p)
		}
	}
}

// c16WaitFileOrDone waits until file exists (file == "": never), done is closed, or max elapsed.
func c16WaitFileOrDone(file string, done <-chan struct{}, max time.Duration) bool {
	deadline := time.Now().Add(max)
	for {
		if file != "" {
			if _, err := os.Stat(file); err == nil {
				return true
			}
		}
		if !time.Now().Before(deadline) {
			return false
		}
		select {
		case <-done:
			if file != "" {
				_, err := os.Stat(file)
				return err == nil
			}
			return false
		case <-time.After(2 * time.Millisecond):
		}
	}
}

// c16Pool runs f(0..n-1) on a pool of workers.
func c16Pool(n, workers int, f func(i int)) {
	if workers > n {
		workers = n
	}
	var wg sync.WaitGroup
	ch := make(chan int)
	for w := 0; w < workers; w++ {
		wg.Add(1)
		go func() {
			defer wg.Done()
			for i := range ch {
				f(i)
			}
		}()
	}
	for i := 0; i < n; i++ {
		ch <- i
	}
	close(ch)
	wg.Wait()
}

// ---- parent: one case = one private cache directory ----------------------------------------

type c16Case struct {
	p       *c16Parent
	env     *c16Env
	buf     *c16Buf
	id      string
	dir     string
	step    int
	workers []string
	replay  map[string]any
	by      map[int]string // populated bystander versions: module index -> snapshot
}

func (p *c16Parent) newCase(env *c16Env, id string, replay map[string]any) *c16Case {
	dir, err := os.MkdirTemp(p.root, "cache-")
	if err != nil {
		panic(err)
	}
	if replay == nil {
		replay = map[string]any{}
	}
	replay["seed"] = p.c.Seed
	replay["modseed"] = env.seed
	replay["case"] = id
	return &c16Case{p: p, env: env, buf: &c16Buf{}, id: id, dir: dir, replay: replay}
}

func (cs *c16Case) close() {
	modcache.RemoveAll(cs.dir)
	cs.env.srv.forget(cs.workers...)
}

func (cs *c16Case) worker(tag string) string {
	cs.step++
	w := fmt.Sprintf("%s/%d-%s", cs.id, cs.step, tag)
	cs.workers = append(cs.workers, w)
	return w
}

func (cs *c16Case) spec(worker string, jobs []c16Job, trace bool) c16Spec {
	return c16Spec{Host: cs.env.host, CacheDir: cs.dir, Seed: cs.env.seed, WorkerID: worker, Jobs: jobs, Trace: trace, ModsFile: cs.env.modsFile}
}

type c16Opts struct {
	Crash int
	Trace bool
	Fault string // get | copy | short | modget: planned once for this child
}

// run executes one child to completion; timeouts and broken children become Direct failures.
func (cs *c16Case) run(tag string, jobs []c16Job, o c16Opts) (c16Run, string) {
	w := cs.worker(tag)
	if o.Fault != "" {
		cs.env.srv.setFault(w, o.Fault, 1)
	}
	run := cs.p.start(cs.spec(w, jobs, o.Trace), o.Crash).wait()
	cs.checkRun(run, tag)
	return run, w
}

func (cs *c16Case) checkRun(run c16Run, tag string) {
	if run.Timeout {
		cs.buf.Direct(false, "timeout", "child "+tag+" did not finish within the safety timeout", cs.replay)
	} else if run.Fail != "" {
		cs.buf.Direct(false, "child-failed", "child "+tag+": "+run.Fail, cs.replay)
	}
}

func (cs *c16Case) snap(m *c16Mod) string { return c16Snapshot(cs.dir, m) }

func c16OneJob(kind string, mod int) []c16Job { return []c16Job{{Kind: kind, Mod: mod}} }

func c16Ret(kind string, r c16Result) string {
	if !r.Ok {
		return "err"
	}
	if kind == "modfile" {
		return "ok"
	}
	return "avail"
}

// c16TR is the outcome of one traced child: the traced job, optionally preceded and
// followed by a FetchFromCache on a fresh Cache in the same (quiescent) process.
type c16TR struct {
	Run    c16Run
	Res    c16Result
	Before c16Result // valid when fcBefore was asked
	After  c16Result // valid when fcAfter was asked
}

// traced runs one traced child, emits its trace op and the FetchFromCache observations.
func (cs *c16Case) traced(kind string, m *c16Mod, tag string, fault string, fcBefore, fcAfter bool) c16TR {
	var jobs []c16Job
	if fcBefore {
		jobs = append(jobs, c16Job{Kind: "fromcache", Mod: m.Idx, Fresh: true})
	}
	ti := len(jobs)
	jobs = append(jobs, c16Job{Kind: kind, Mod: m.Idx})
	if fcAfter {
		jobs = append(jobs, c16Job{Kind: "fromcache", Mod: m.Idx, Fresh: true})
	}
	run, w := cs.run(tag, jobs, c16Opts{Trace: true, Fault: fault})
	noRes := c16Result{Err: "err", ErrText: "no result: " + run.Fail}
	tr := c16TR{Run: run, Res: noRes, Before: noRes, After: noRes}
	if run.Out != nil && len(run.Out.Results) == len(jobs) {
		rs := run.Out.Results
		tr.Res = rs[ti]
		if fcBefore {
			tr.Before = rs[0]
			cs.buf.FromCache(m.N(), rs[0].Pre, c16Ret("fromcache", rs[0]), rs[0].Events)
		}
		f := "none"
		switch fault {
		case "get", "modget":
			f = "get"
		case "copy", "short":
			f = "copy"
		}
		if kind == "fromcache" {
			cs.buf.FromCache(m.N(), run.Out.Init, c16Ret(kind, tr.Res), run.Out.Events)
		} else {
			cs.buf.TraceOp(kind, m.N(), f, run.Out.Init, c16Ret(kind, tr.Res), run.Out.Events, cs.replay)
		}
		if fcAfter {
			tr.After = rs[len(rs)-1]
			cs.buf.FromCache(m.N(), tr.After.Pre, c16Ret("fromcache", tr.After), tr.After.Events)
		}
	}
	if fault != "" && cs.env.srv.faultLeft(w) != 0 {
		cs.buf.Count("fault-not-consumed=" + fault)
	}
	return tr
}

// ---- cross-version interference: bystander versions ----------------------------------------

// c16CopyTreeModes copies a tree, giving directories their original mode afterwards (the
// cache makes extracted directories read-only).
func c16CopyTreeModes(src, dst string) error {
	type dm struct {
		path string
		mode fs.FileMode
	}
	var dirs []dm
	err := filepath.WalkDir(src, func(p string, d fs.DirEntry, err error) error {
		if err != nil {
			return err
		}
		rel, _ := filepath.Rel(src, p)
		to := filepath.Join(dst, rel)
		info, err := d.Info()
		if err != nil {
			return err
		}
		if d.IsDir() {
			dirs = append(dirs, dm{to, info.Mode().Perm()})
			return os.MkdirAll(to, 0o777)
		}
		data, err := os.ReadFile(p)
		if err != nil {
			return err
		}
		if err := os.WriteFile(to, data, 0o666); err != nil {
			return err
		}
		return os.Chmod(to, info.Mode().Perm())
	})
	for i := len(dirs) - 1; i >= 0 && err == nil; i-- {
		err = os.Chmod(dirs[i].path, dirs[i].mode)
	}
	return err
}

// c16CopyModule copies the cache artefacts of one module version from one cache to another.
func c16CopyModule(from, to string, m *c16Mod) error {
	if err := os.MkdirAll(filepath.Dir(m.xdir(to)), 0o777); err != nil {
		return err
	}
	if err := c16CopyTreeModes(m.xdir(from), m.xdir(to)); err != nil {
		return err
	}
	if err := os.MkdirAll(m.vdir(to), 0o777); err != nil {
		return err
	}
	for _, suf := range []string{"zip", "mod", "lock", "partial"} {
		data, err := os.ReadFile(filepath.Join(m.vdir(from), m.escVer+"."+suf))
		if err != nil {
			continue
		}
		if err := os.WriteFile(filepath.Join(m.vdir(to), m.escVer+"."+suf), data, 0o666); err != nil {
			return err
		}
	}
	return nil
}

// makeTemplate fetches every regular module version into one cache (one child).
func (p *c16Parent) makeTemplate(env *c16Env) error {
	dir, err := os.MkdirTemp(p.root, "template-")
	if err != nil {
		return err
	}
	var jobs []c16Job
	for i := 0; i < c16NRegular; i++ {
		jobs = append(jobs, c16Job{Kind: "fetch", Mod: i})
	}
	run := p.start(c16Spec{Host: env.host, CacheDir: dir, Seed: env.seed, WorkerID: "template", Jobs: jobs, ModsFile: env.modsFile}, 0).wait()
	if run.Out == nil || len(run.Out.Results) != len(jobs) {
		return fmt.Errorf("template child failed: %s", run.Fail)
	}
	for i, r := range run.Out.Results {
		if !r.Ok || r.Verdict != "equal" {
			return fmt.Errorf("template: fetch of module %d: %s %s %s", i, r.Err, r.Verdict, r.ErrText)
		}
	}
	env.template = dir
	return nil
}

// populate puts every regular module version except `exclude` into the case's cache,
// complete, as if fetched earlier; it remembers their snapshots.
func (cs *c16Case) populate(exclude int) {
	cs.by = map[int]string{}
	if cs.env.template == "" {
		return
	}
	for i := 0; i < c16NRegular; i++ {
		if i == exclude {
			continue
		}
		m := cs.env.mods[i]
		if err := c16CopyModule(cs.env.template, cs.dir, m); err != nil {
			cs.buf.Direct(false, "harness-setup", "cannot populate the cache with module "+fmt.Sprint(i)+": "+err.Error(), cs.replay)
			continue
		}
		cs.by[i] = cs.snap(m)
	}
}

// checkBystanders: every version that was complete before the operation on another version
// must still be complete, byte-identical, and count as available.
func (cs *c16Case) checkBystanders(after string) {
	for i := 0; i < c16NRegular; i++ {
		before, ok := cs.by[i]
		if !ok {
			continue
		}
		m := cs.env.mods[i]
		now := cs.snap(m)
		cs.buf.Direct(now == before, "cross-version-damaged",
			fmt.Sprintf("after %s, module %d (%s), which was complete in the same cache, changed from %s to %s", after, i, m.MV, before, now), cs.replay)
		if now != before {
			cs.buf.Safe(m.N(), now, cs.replay)
		}
	}
}

// bystanderJobs are FetchFromCache calls (fresh Cache each) for the populated versions.
func (cs *c16Case) bystanderJobs() []c16Job {
	var jobs []c16Job
	for i := 0; i < c16NRegular; i++ {
		if _, ok := cs.by[i]; ok {
			jobs = append(jobs, c16Job{Kind: "fromcache", Mod: i, Fresh: true, Dir: cs.dir})
		}
	}
	return jobs
}

// emitJob turns the result of one job of a traced sequential child into its protocol op.
func (cs *c16Case) emitJob(res c16Result, fault string) {
	m := cs.env.mods[res.Mod]
	f := "none"
	switch fault {
	case "get", "modget":
		f = "get"
	case "copy", "short":
		f = "copy"
	}
	if res.Kind == "fromcache" {
		cs.buf.FromCache(m.N(), res.Pre, c16Ret(res.Kind, res), res.Events)
	} else {
		cs.buf.TraceOp(res.Kind, m.N(), f, res.Pre, c16Ret(res.Kind, res), res.Events, cs.replay)
	}
}

// ---- phases --------------------------------------------------------------------------------

func c16OnlyBetweenStats(evs []c16Event) bool {
	for _, e := range evs {
		if e.Hook != "downloaddir.between-stats" {
			return false
		}
	}
	return true
}

// runTraced runs one child that executes the jobs sequentially with tracing, emits the
// protocol op of every job, and returns the results (nil when the child broke).
func (cs *c16Case) runTraced(tag string, jobs []c16Job) []c16Result {
	run, _ := cs.run(tag, jobs, c16Opts{Trace: true})
	if run.Out == nil || len(run.Out.Results) != len(jobs) {
		return nil
	}
	for _, r := range run.Out.Results {
		cs.emitJob(r, "")
	}
	return run.Out.Results
}

// P1: clean traces (two children per module). Returns the number of hook events of the
// cold fetch / cold modfile.
func (p *c16Parent) p1Case(env *c16Env, mi int) (*c16Buf, int, int) {
	m := env.mods[mi]
	n := m.N()
	hFetch, hMod := 0, 0
	okEq := func(r c16Result) bool { return r.Ok && r.Verdict == "equal" }
	txt := func(r c16Result) string { return r.Err + " " + r.Verdict + " " + r.ErrText }
	fc := c16Job{Kind: "fromcache", Mod: mi, Fresh: true}

	cs := p.newCase(env, fmt.Sprintf("p1a-m%d", mi), map[string]any{"module": mi})
	b := cs.buf
	b.Count("phase=P1")
	cs.populate(mi)
	jobs := []c16Job{
		fc,                                      // 0: empty cache
		{Kind: "fetch", Mod: mi},                // 1: cold
		fc,                                      // 2
		{Kind: "fetch", Mod: mi},                // 3: warm, same Cache
		{Kind: "fetch", Mod: mi, Fresh: true},   // 4: warm, as a fresh process sees it
		fc,                                      // 5
		{Kind: "modfile", Mod: mi},              // 6: cold ModFile after the fetch
		{Kind: "modfile", Mod: mi},              // 7: in-memory hit
		{Kind: "modfile", Mod: mi, Fresh: true}, // 8: disk hit
	}
	nb := len(jobs)
	jobs = append(jobs, cs.bystanderJobs()...)
	if rs := cs.runTraced("clean", jobs); rs != nil {
		b.Direct(!rs[0].Ok, "fromcache-on-empty", "FetchFromCache served a directory that was never fetched", cs.replay)
		b.Direct(okEq(rs[1]), "clean-fetch-failed", "cold Fetch: "+txt(rs[1]), cs.replay)
		b.Direct(okEq(rs[2]), "not-available-after-fetch", "FetchFromCache after a clean Fetch: "+txt(rs[2]), cs.replay)
		hFetch = len(rs[1].Events)
		b.Count(fmt.Sprintf("p1-fetch-hooks=%d n=%d", hFetch, n))
		b.Direct(hFetch > 0, "hooks-missing", "a cold Fetch passed no hook point (binary built without -tags verif?)", cs.replay)
		if hFetch != 11+2*n {
			b.Count("p1-fetch-hooks-unexpected")
		}
		for _, i := range []int{3, 4} {
			b.Direct(okEq(rs[i]), "clean-fetch-failed", "warm Fetch: "+txt(rs[i]), cs.replay)
			b.Direct(c16OnlyBetweenStats(rs[i].Events), "warm-fetch-effects", "a Fetch on a warm cache passed hook points other than downloaddir.between-stats", cs.replay)
		}
		b.Direct(okEq(rs[5]), "not-available-after-fetch", "FetchFromCache (fresh Cache) after a clean Fetch: "+txt(rs[5]), cs.replay)
		for _, i := range []int{6, 7, 8} {
			b.Direct(okEq(rs[i]), "clean-modfile-failed", "ModFile: "+txt(rs[i]), cs.replay)
		}
		b.Direct(len(rs[7].Events) == 0 && len(rs[8].Events) == 0, "warm-modfile-effects", "a ModFile on a warm cache passed hook points", cs.replay)
		for _, r := range rs[nb:] {
			b.Direct(okEq(r), "cross-version-not-served",
				fmt.Sprintf("after a clean fetch of module %d, FetchFromCache of module %d (complete in the same cache): %s", mi, r.Mod, txt(r)), cs.replay)
		}
	} else {
		b.Direct(false, "clean-fetch-failed", "the clean-run child of module "+fmt.Sprint(mi)+" produced no result", cs.replay)
	}
	b.Safe(n, cs.snap(m), cs.replay)
	cs.checkBystanders(fmt.Sprintf("a clean Fetch and ModFile of module %d", mi))
	cs.close()

	cs2 := p.newCase(env, fmt.Sprintf("p1b-m%d", mi), map[string]any{"module": mi})
	cs2.buf = b
	jobs = []c16Job{
		{Kind: "modfile", Mod: mi}, // 0: cold
		{Kind: "modfile", Mod: mi}, // 1
		fc,                         // 2: only the module file is cached
		{Kind: "fetch", Mod: mi},   // 3: cold fetch after ModFile
		{Kind: "fetch", Mod: mi},   // 4
	}
	if rs := cs2.runTraced("clean-modfile-first", jobs); rs != nil {
		hMod = len(rs[0].Events)
		b.Count(fmt.Sprintf("p1-modfile-hooks=%d", hMod))
		b.Direct(okEq(rs[0]) && okEq(rs[1]), "clean-modfile-failed", "ModFile: "+txt(rs[0])+" / "+txt(rs[1]), cs2.replay)
		b.Direct(len(rs[1].Events) == 0, "warm-modfile-effects", "a ModFile on a warm cache passed hook points", cs2.replay)
		b.Direct(!rs[2].Ok, "fromcache-on-empty", "FetchFromCache served a directory when only the module file was cached", cs2.replay)
		b.Direct(okEq(rs[3]) && okEq(rs[4]), "clean-fetch-failed", "Fetch after ModFile: "+txt(rs[3])+" / "+txt(rs[4]), cs2.replay)
	} else {
		b.Direct(false, "clean-modfile-failed", "the clean-run child of module "+fmt.Sprint(mi)+" produced no result", cs2.replay)
	}
	b.Safe(n, cs2.snap(m), cs2.replay)
	cs2.close()
	return b, hFetch, hMod
}

// c16Step is one disturbed run preceding the clean recovery run of a chain case.
type c16Step struct {
	Crash    int    `json:"crash,omitempty"` // kill the child at its Crash-th hook point
	MustKill bool   `json:"mustkill,omitempty"`
	Fault    string `json:"fault,omitempty"` // registry fault planned once (no crash)
}

// c16Chain is a chain case between its two halves: the disturbed runs have happened (each
// in its own process, killed or faulted), the recovery jobs are still to be run — batched
// with those of other cases in one worker process (a fresh Cache per job is as good as a
// fresh process: all state of modcache lives in the Cache value and on disk).
type c16Chain struct {
	cs         *c16Case
	m          *c16Mod
	mi         int
	kind       string
	phase      string
	desc       string
	prev       string
	onlyFaults bool
	jobs       []c16Job
}

// chainPrep: fresh cache holding the other versions; each step is a child that is killed at
// a hook point or hits a registry fault.
func (p *c16Parent) chainPrep(env *c16Env, phase, id string, mi int, kind string, steps []c16Step) *c16Chain {
	m := env.mods[mi]
	n := m.N()
	cs := p.newCase(env, id, map[string]any{"module": mi, "kind": kind, "steps": steps})
	b := cs.buf
	b.Count("phase=" + phase)
	b.Count(phase + " kind=" + kind)
	cs.populate(mi)
	ch := &c16Chain{cs: cs, m: m, mi: mi, kind: kind, phase: phase, desc: c16StepsText(steps), onlyFaults: true}
	prev := cs.snap(m)
	for si, st := range steps {
		switch {
		case st.Crash > 0:
			ch.onlyFaults = false
			b.Count(fmt.Sprintf("%s crash-k=%s/%d", phase, kind, st.Crash))
			run, _ := cs.run(fmt.Sprintf("crash%d@%d", si, st.Crash), c16OneJob(kind, mi), c16Opts{Crash: st.Crash})
			now := cs.snap(m)
			ans := now
			if !run.Killed {
				ans = "done"
				b.Count(phase + " crash-control-not-killed")
			}
			if st.MustKill {
				b.Direct(run.Killed, "crash-not-delivered",
					fmt.Sprintf("%s child was not killed at hook %d (%s)", kind, st.Crash, ch.desc), cs.replay)
			}
			b.IOp(fmt.Sprintf("crashat %s %d %s %d", kind, n, prev, st.Crash), ans)
			b.Safe(n, now, cs.replay)
			prev = now
			cs.checkBystanders(fmt.Sprintf("a %s of module %d killed at hook %d", kind, mi, st.Crash))
		case st.Fault != "":
			b.Count(phase + " fault=" + st.Fault)
			res := cs.traced(kind, m, fmt.Sprintf("fault%d-%s", si, st.Fault), st.Fault, false, false).Res
			b.Direct(!res.Ok, "fault-not-an-error",
				fmt.Sprintf("%s returned no error although the registry failed (%s) (%s)", kind, st.Fault, ch.desc), cs.replay)
			now := cs.snap(m)
			b.Safe(n, now, cs.replay)
			z := c16Field(now, 'z')
			b.Direct(z == "-" || z == "f", "zip-partial", "a partial zip is at its final name after registry fault "+st.Fault+": "+now, cs.replay)
			prev = now
			cs.checkBystanders(fmt.Sprintf("a %s of module %d with registry fault %s", kind, mi, st.Fault))
		}
	}
	ch.prev = prev
	if c16Field(prev, 'd') != "-" && c16Field(prev, 'm') == "1" {
		b.Count(phase + " recovery-via-stale-dir-cleanup")
	}
	if c16Field(prev, 'z') == "f" {
		b.Count(phase + " recovery-with-zip-present")
	}
	if c16Field(prev, 't') != "-" || c16Field(prev, 'u') != "-" {
		b.Count(phase + " recovery-with-stale-tmp")
	}
	fc := c16Job{Kind: "fromcache", Mod: mi, Fresh: true, Dir: cs.dir}
	if kind == "fetch" {
		ch.jobs = append(ch.jobs, fc)
	}
	ch.jobs = append(ch.jobs, c16Job{Kind: kind, Mod: mi, Fresh: true, Dir: cs.dir})
	if kind == "fetch" {
		ch.jobs = append(ch.jobs, fc)
	}
	ch.jobs = append(ch.jobs, cs.bystanderJobs()...)
	return ch
}

// chainFinish evaluates the recovery jobs of a chain case: FetchFromCache, the clean run,
// FetchFromCache again, FetchFromCache of every bystander version. It returns the number of
// hook events of the recovery run.
func (p *c16Parent) chainFinish(ch *c16Chain, rs []c16Result, fail string) (*c16Buf, int) {
	cs, m, kind, phase, desc, prev := ch.cs, ch.m, ch.kind, ch.phase, ch.desc, ch.prev
	n := m.N()
	b := cs.buf
	defer cs.close()
	if rs == nil || len(rs) != len(ch.jobs) {
		b.Direct(false, "child-failed", "the recovery worker of "+cs.id+" produced no result: "+fail, cs.replay)
		return b, 0
	}
	for _, r := range rs {
		cs.emitJob(r, "")
	}
	isFetch := kind == "fetch"
	var before, res, after c16Result
	rest := rs
	if isFetch {
		before, res, after, rest = rs[0], rs[1], rs[2], rs[3:]
		avail, verdict := before.Ok, before.Verdict
		b.Direct(!avail || verdict == "equal", "fromcache-incomplete",
			fmt.Sprintf("FetchFromCache served an incomplete/incorrect directory after %s: %s (state %s)", desc, verdict, prev), cs.replay)
		if ch.onlyFaults {
			b.Direct(!avail, "fromcache-after-fault", "FetchFromCache served a directory after a failed download ("+desc+")", cs.replay)
		}
		if avail {
			b.Count(phase + " available-before-recovery")
		}
		b.Direct(before.Pre == prev, "snapshot-mismatch",
			"the recovering worker saw "+before.Pre+" but the parent saw "+prev+" in a quiescent state", cs.replay)
	} else {
		res, rest = rs[0], rs[1:]
		f := c16Field(prev, 'f')
		b.Direct(f == "-" || f == "f", "modfile-partial", "a partial module file is at its final name after "+desc+": "+prev, cs.replay)
	}
	h2 := len(res.Events)
	b.Direct(res.Pre == prev, "snapshot-mismatch",
		"the recovering worker saw "+res.Pre+" but the parent saw "+prev+" in a quiescent state", cs.replay)
	b.Direct(res.Ok, "recovery-failed", fmt.Sprintf("clean %s after %s failed: %s", kind, desc, res.ErrText), cs.replay)
	if res.Ok {
		b.Direct(res.Verdict == "equal", "recovery-wrong-content", fmt.Sprintf("clean %s after %s: %s", kind, desc, res.Verdict), cs.replay)
	}
	final := cs.snap(m)
	b.Safe(n, final, cs.replay)
	if isFetch {
		avail, verdict := after.Ok, after.Verdict
		b.Direct(avail && verdict == "equal", "not-available-after-recovery",
			fmt.Sprintf("FetchFromCache after recovery from %s: avail=%v %s (state %s)", desc, avail, verdict, final), cs.replay)
		b.Direct(c16Field(final, 'd') == fmt.Sprintf("%dg", n) && c16Field(final, 'm') == "0" && c16Field(final, 'z') == "f" && c16Field(final, 'l') == "0",
			"final-state-wrong", "state after recovery from "+desc+" is "+final, cs.replay)
	} else {
		b.Direct(c16Field(final, 'f') == "f", "modfile-wrong-after-recovery", "module file after recovery from "+desc+": "+final, cs.replay)
	}
	for _, r := range rest {
		b.Direct(r.Ok && r.Verdict == "equal", "cross-version-not-served",
			fmt.Sprintf("after %s and the recovery of module %d, FetchFromCache of module %d (complete in the same cache before): %s %s %s", desc, ch.mi, r.Mod, r.Err, r.Verdict, r.ErrText), cs.replay)
	}
	cs.checkBystanders(fmt.Sprintf("%s and the clean %s of module %d", desc, kind, ch.mi))
	return b, h2
}

// runChains runs the recovery jobs of many chain cases in a few worker processes and
// finishes the cases; results are in the order of `chains`.
func (p *c16Parent) runChains(env *c16Env, tag string, chains []*c16Chain, workers int) ([]*c16Buf, []int) {
	bufs := make([]*c16Buf, len(chains))
	h2 := make([]int, len(chains))
	if len(chains) == 0 {
		return bufs, h2
	}
	if need := (len(chains) + 11) / 12; workers < need { // at most a dozen cases per worker process
		workers = need
	}
	if workers > len(chains) {
		workers = len(chains)
	}
	groups := make([][]int, workers)
	for i := range chains {
		groups[i%workers] = append(groups[i%workers], i)
	}
	c16Pool(workers, 16, func(g int) {
		var jobs []c16Job
		for _, i := range groups[g] {
			jobs = append(jobs, chains[i].jobs...)
		}
		spec := c16Spec{Host: env.host, CacheDir: p.root, Seed: env.seed, WorkerID: fmt.Sprintf("recover/%s/%d", tag, g),
			Jobs: jobs, Trace: true, ModsFile: env.modsFile}
		run := p.start(spec, 0).wait()
		var rs []c16Result
		fail := run.Fail
		if run.Out != nil && len(run.Out.Results) == len(jobs) {
			rs = run.Out.Results
		} else if fail == "" {
			fail = "wrong number of results"
		}
		off := 0
		for _, i := range groups[g] {
			k := len(chains[i].jobs)
			var part []c16Result
			if rs != nil {
				part = rs[off : off+k]
			}
			off += k
			bufs[i], h2[i] = p.chainFinish(chains[i], part, fail)
		}
	})
	return bufs, h2
}

func c16StepsText(steps []c16Step) string {
	var parts []string
	for _, s := range steps {
		if s.Crash > 0 {
			parts = append(parts, fmt.Sprintf("crash at hook %d", s.Crash))
		} else {
			parts = append(parts, "registry fault "+s.Fault)
		}
	}
	return strings.Join(parts, ", then ")
}

// P5: one concurrency round.
func (p *c16Parent) p5Case(env *c16Env, round int, r *Rng) *c16Buf {
	cs := p.newCase(env, fmt.Sprintf("p5-r%d", round), nil)
	defer cs.close()
	b := cs.buf
	b.Count("phase=P5")
	b.Count("concurrency-rounds")
	K := 2 + r.Intn(3)
	type child struct {
		worker string
		jobs   []c16Job
		proc   *c16Proc
	}
	var children []*child
	var canon []string
	fetched := map[int]bool{}
	wantMod := map[int]bool{}
	for ci := 0; ci < K; ci++ {
		ch := &child{worker: cs.worker(fmt.Sprintf("c%d", ci))}
		M := 2 + r.Intn(3)
		for g := 0; g < M; g++ {
			nj := 2 + r.Intn(2)
			var names []string
			for j := 0; j < nj; j++ {
				job := c16Job{Kind: Pick(r, []string{"fetch", "fetch", "modfile"}), Mod: r.Intn(c16NRegular), Goroutine: g}
				ch.jobs = append(ch.jobs, job)
				names = append(names, fmt.Sprintf("%s%d", job.Kind, job.Mod))
				if job.Kind == "fetch" {
					fetched[job.Mod] = true
				} else {
					wantMod[job.Mod] = true
				}
				b.Count("p5 job=" + job.Kind)
			}
			canon = append(canon, strings.Join(names, ">"))
		}
		env.srv.setLatency(ch.worker, r.Sub())
		children = append(children, ch)
		b.Count(fmt.Sprintf("p5 goroutines-per-child=%d", M))
	}
	b.Count(fmt.Sprintf("p5 children=%d", K))
	sort.Strings(canon)
	canonText := fmt.Sprintf("concurrent K=%d ", K) + strings.Join(canon, " | ")
	cs.replay["jobs"] = canonText
	b.add(func(p *c16Parent) { p.c.Case(canonText, true) })

	// All children initialise, report in, and are then released together.
	gateDir := cs.dir + "-gate"
	os.MkdirAll(gateDir, 0o777)
	defer os.RemoveAll(gateDir)
	gate := filepath.Join(gateDir, "go")
	for ci, ch := range children {
		sp := cs.spec(ch.worker, ch.jobs, false)
		sp.StartedFile = filepath.Join(gateDir, fmt.Sprintf("started%d", ci))
		sp.GateFile, sp.GateMs = gate, 150000
		ch.proc = p.start(sp, 0)
	}
	for ci, ch := range children {
		c16WaitFileOrDone(filepath.Join(gateDir, fmt.Sprintf("started%d", ci)), ch.proc.done, 120*time.Second)
	}
	os.WriteFile(gate, []byte("go\n"), 0o666)
	for ci, ch := range children {
		run := ch.proc.wait()
		cs.checkRun(run, fmt.Sprintf("c%d", ci))
		if run.Out == nil {
			continue
		}
		for ji, res := range run.Out.Results {
			what := fmt.Sprintf("child %d job %d (%s of module %d)", ci, ji, res.Kind, res.Mod)
			b.Direct(res.Ok, "concurrent-fetch-failed", what+" failed: "+res.ErrText, cs.replay)
			if res.Ok {
				b.Direct(res.Verdict == "equal", "concurrent-wrong-content", what+": "+res.Verdict, cs.replay)
			}
		}
	}
	for _, m := range env.mods[:c16NRegular] {
		zt, mt := 0, 0
		for ci, ch := range children {
			zc, mc := env.srv.count(ch.worker, m.ZipDigest), env.srv.count(ch.worker, m.ModDigest)
			zt += zc
			mt += mc
			b.Direct(zc <= 1 && mc <= 1, "single-flight-violated",
				fmt.Sprintf("child %d downloaded module %d more than once: zip GETs=%d module-file GETs=%d", ci, m.Idx, zc, mc), cs.replay)
		}
		if fetched[m.Idx] {
			b.Direct(zt >= 1, "zip-never-downloaded", fmt.Sprintf("module %d was fetched but its zip blob was never requested", m.Idx), cs.replay)
			b.Count(fmt.Sprintf("p5 zip-gets-per-round=%d", zt))
		}
		if wantMod[m.Idx] {
			b.Count(fmt.Sprintf("p5 modfile-gets-per-round=%d", mt))
		}
		snap := cs.snap(m)
		b.Safe(m.N(), snap, cs.replay)
		if fetched[m.Idx] {
			b.Direct(c16Field(snap, 'd') == fmt.Sprintf("%dg", m.N()) && c16Field(snap, 'm') == "0" && c16Field(snap, 'z') == "f" && c16Field(snap, 't') == "-" && c16Field(snap, 'l') == "0",
				"final-state-wrong", fmt.Sprintf("state of module %d after a concurrency round: %s", m.Idx, snap), cs.replay)
		}
	}
	return b
}

var c16PauseHooks = []string{
	"fetch.partial-written", "unzip.dir-created", "unzip.file-created", "unzip.file-written",
	"fetch.unzipped", "zip.tmp-created", "zip.copied",
}

// P6: child A pauses at a hook (inside or outside the locked region), child B starts then.
func (p *c16Parent) p6Case(env *c16Env, idx int, mi int, hook string, twoGoroutines bool) *c16Buf {
	m := env.mods[mi]
	n := m.N()
	cs := p.newCase(env, fmt.Sprintf("p6-%d", idx), map[string]any{"module": mi, "pauseAt": hook, "bGoroutines": map[bool]int{false: 1, true: 2}[twoGoroutines]})
	defer cs.close()
	b := cs.buf
	b.Count("phase=P6")
	b.Count("p6 hook=" + hook)
	syncDir := cs.dir + "-sync"
	os.MkdirAll(syncDir, 0o777)
	defer os.RemoveAll(syncDir)
	reached, release, started := filepath.Join(syncDir, "reached"), filepath.Join(syncDir, "release"), filepath.Join(syncDir, "started")

	// A pauses at the hook until B is running (bounded by PauseMs as a safety net).
	wa := cs.worker("A")
	sa := cs.spec(wa, c16OneJob("fetch", mi), false)
	sa.PauseAt, sa.PauseNth, sa.PauseMs, sa.ReachedFile, sa.ReleaseFile = hook, 1, 150000, reached, release
	if hook == "unzip.file-written" {
		sa.PauseNth = n
	}
	pa := p.start(sa, 0)
	if !c16WaitFileOrDone(reached, pa.done, 120*time.Second) {
		select {
		case <-pa.done:
			// A finished without passing that hook (e.g. it no longer exists): the pair
			// degenerates to "B after A", which is still checked below.
			b.Count("p6 pause-hook-not-reached")
		default:
			b.Direct(false, "timeout", "child A did not reach hook "+hook+" within the safety timeout", cs.replay)
		}
	}

	wb := cs.worker("B")
	jobsB := c16OneJob("fetch", mi)
	if twoGoroutines {
		jobsB = []c16Job{{Kind: "fetch", Mod: mi, Goroutine: 0}, {Kind: "fetch", Mod: mi, Goroutine: 1}}
		b.Count("p6 variant=B-two-goroutines")
	} else {
		b.Count("p6 variant=B-plain")
	}
	sb := cs.spec(wb, jobsB, false)
	sb.StartedFile = started
	pb := p.start(sb, 0)
	// B is initialised and about to call Fetch: give it a moment to run into A's critical
	// section (or past it, if the code under test lets it), then let A go on.
	c16WaitFileOrDone(started, pb.done, 120*time.Second)
	c16WaitFileOrDone("", pb.done, 300*time.Millisecond)
	os.WriteFile(release, []byte("go\n"), 0o666)
	for i, pr := range []*c16Proc{pa, pb} {
		name := []string{"A", "B"}[i]
		run := pr.wait()
		cs.checkRun(run, name)
		if run.Out == nil {
			continue
		}
		for _, res := range run.Out.Results {
			b.Direct(res.Ok, "staggered-fetch-failed", fmt.Sprintf("child %s (A paused at %s): Fetch failed: %s", name, hook, res.ErrText), cs.replay)
			if res.Ok {
				b.Direct(res.Verdict == "equal", "staggered-wrong-content", fmt.Sprintf("child %s (A paused at %s): %s", name, hook, res.Verdict), cs.replay)
			}
		}
	}
	za, zb := env.srv.count(wa, m.ZipDigest), env.srv.count(wb, m.ZipDigest)
	b.Direct(za <= 1 && zb <= 1, "single-flight-violated", fmt.Sprintf("zip GETs: A=%d B=%d (A paused at %s)", za, zb, hook), cs.replay)
	b.Count(fmt.Sprintf("p6 zip-gets-total=%d", za+zb))
	final := cs.snap(m)
	b.Safe(n, final, cs.replay)
	b.Direct(final == fmt.Sprintf("d%dg,m0,zf,t-,l0,f-,u-", n), "final-state-wrong",
		"state after a staggered pair (A paused at "+hook+"): "+final, cs.replay)
	return b
}

// ---- parent main ---------------------------------------------------------------------------

func c16ParentMain(c *Cfg) {
	p := &c16Parent{c: c, safeSeen: map[string]bool{}, fcSeen: map[string]bool{}}
	var err error
	if p.exe, err = os.Executable(); err != nil {
		p.exe = os.Args[0]
	}
	if p.root, err = os.MkdirTemp("", "verif-c16-"); err != nil {
		c.Direct(false, "harness-setup", "cannot create temp dir: "+err.Error(), nil)
		return
	}
	defer modcache.RemoveAll(p.root)
	// Do not leave cache directories behind when the check is interrupted.
	sigc := make(chan os.Signal, 1)
	signal.Notify(sigc, syscall.SIGINT, syscall.SIGTERM, syscall.SIGHUP, syscall.SIGPIPE)
	defer signal.Stop(sigc)
	go func() {
		if _, ok := <-sigc; ok {
			modcache.RemoveAll(p.root)
			os.Exit(130)
		}
	}()
	env, err := c16NewEnv(c.Seed, p.root)
	if err != nil {
		c.Direct(false, "harness-setup", err.Error(), nil)
		return
	}
	defer env.hs.Close()
	r := NewRng(c.Seed)
	// one independent generator per phase, so that -focus (which skips P3) makes the same choices
	rP3, rP4, rP6, rP5 := r.Sub(), r.Sub(), r.Sub(), r.Sub()
	const poolSize = 16
	nm := c16NPrimary
	if err := p.makeTemplate(env); err != nil {
		c.Direct(false, "harness-setup", err.Error(), nil)
		return
	}
	// VERIF_C16_PHASES=P2,P7 (debugging aid) restricts the run to some phases; default: all
	want := func(ph string) bool {
		v := os.Getenv("VERIF_C16_PHASES")
		return v == "" || strings.Contains(","+v+",", ","+ph+",")
	}

	// P1 (always run: it measures the hook counts; its I ops are dropped in -focus mode).
	H := make([]int, nm)
	HM := make([]int, nm)
	{
		bufs := make([]*c16Buf, nm)
		c16Pool(nm, poolSize, func(i int) { bufs[i], H[i], HM[i] = p.p1Case(env, i) })
		p.flush(bufs)
		for i, m := range env.mods[:nm] {
			if H[i] == 0 {
				H[i] = 11 + 2*m.N()
			}
			if HM[i] == 0 {
				HM[i] = 3
			}
		}
	}

	// P2: single crash at every hook index (+ the not-killed control), fetch and modfile.
	type p2c struct {
		env  *c16Env
		mi   int
		kind string
		k    int
		must bool
	}
	envs := []*c16Env{env}
	if c.Thorough() {
		for i := 1; i <= 2; i++ {
			e2, err := c16NewEnv(c.Seed*1000003+uint64(i), p.root)
			if err != nil {
				c.Direct(false, "harness-setup", err.Error(), nil)
				continue
			}
			defer e2.hs.Close()
			if err := p.makeTemplate(e2); err != nil {
				c.Direct(false, "harness-setup", err.Error(), nil)
				continue
			}
			envs = append(envs, e2)
		}
	}
	var p2 []p2c
	if !want("P2") {
		envs = nil
	}
	for _, e := range envs {
		for mi := 0; mi < nm; mi++ {
			for k := 1; k <= H[mi]+1; k++ {
				// quick tier: every hook index for modules 0 and 1, every second one for module 2
				if mi == 2 && k%2 == 0 && k <= H[mi] && !c.Thorough() && !c.Focus {
					continue
				}
				p2 = append(p2, p2c{e, mi, "fetch", k, k <= H[mi]})
			}
			for k := 1; k <= HM[mi]+1; k++ {
				p2 = append(p2, p2c{e, mi, "modfile", k, k <= HM[mi]})
			}
		}
	}
	H2 := make([][]int, nm) // H2[mi][k1] = hook count of the recovery run after a crash at k1
	for mi := range H2 {
		H2[mi] = make([]int, H[mi]+2)
	}
	{
		chains := make([]*c16Chain, len(p2))
		c16Pool(len(p2), poolSize, func(i int) {
			x := p2[i]
			id := fmt.Sprintf("p2-s%d-m%d-%s-k%d", x.env.seed, x.mi, x.kind, x.k)
			chains[i] = p.chainPrep(x.env, "P2", id, x.mi, x.kind, []c16Step{{Crash: x.k, MustKill: x.must}})
		})
		bufs := make([]*c16Buf, len(p2))
		h2 := make([]int, len(p2))
		for _, e := range envs { // one batch of recovery workers per registry
			var idx []int
			var sub []*c16Chain
			for i, x := range p2 {
				if x.env == e {
					idx = append(idx, i)
					sub = append(sub, chains[i])
				}
			}
			bs, hs := p.runChains(e, fmt.Sprintf("p2-%d", e.seed), sub, 8)
			for j, i := range idx {
				bufs[i], h2[i] = bs[j], hs[j]
			}
		}
		p.flush(bufs)
		for i, x := range p2 {
			if x.env == env && x.kind == "fetch" {
				H2[x.mi][x.k] = h2[i]
			}
		}
	}

	// P3: double crash.
	if !c.Focus && want("P3") {
		type pair struct{ mi, k1, k2 int }
		var pairs []pair
		for mi := 0; mi < nm; mi++ {
			for k1 := 1; k1 <= H[mi]; k1++ {
				for k2 := 1; k2 <= H2[mi][k1]; k2++ {
					pairs = append(pairs, pair{mi, k1, k2})
				}
			}
		}
		if !c.Thorough() {
			pr := rP3
			Shuffle(pr, pairs)
			if len(pairs) > 12 {
				pairs = pairs[:12]
			}
			sort.Slice(pairs, func(a, b int) bool {
				x, y := pairs[a], pairs[b]
				if x.mi != y.mi {
					return x.mi < y.mi
				}
				if x.k1 != y.k1 {
					return x.k1 < y.k1
				}
				return x.k2 < y.k2
			})
		}
		chains := make([]*c16Chain, len(pairs))
		c16Pool(len(pairs), poolSize, func(i int) {
			x := pairs[i]
			id := fmt.Sprintf("p3-m%d-k%d-k%d", x.mi, x.k1, x.k2)
			chains[i] = p.chainPrep(env, "P3", id, x.mi, "fetch", []c16Step{{Crash: x.k1, MustKill: true}, {Crash: x.k2, MustKill: true}})
		})
		bufs, _ := p.runChains(env, "p3", chains, 6)
		p.flush(bufs)
	}

	// P4: registry faults, then clean retry; fault+crash and crash+fault combinations.
	if want("P4") {
		type p4c struct {
			mi    int
			kind  string
			steps []c16Step
		}
		var cases []p4c
		for mi := 0; mi < nm; mi++ {
			for _, f := range []string{"get", "copy", "short"} {
				cases = append(cases, p4c{mi, "fetch", []c16Step{{Fault: f}}})
			}
			cases = append(cases, p4c{mi, "modfile", []c16Step{{Fault: "modget"}}})
		}
		pr := rP4
		for i := 0; i < c.Pick(4, 12); i++ {
			mi := pr.Intn(nm)
			f := Pick(pr, []string{"get", "copy", "short"})
			cases = append(cases, p4c{mi, "fetch", []c16Step{{Fault: f}, {Crash: 1 + pr.Intn(H[mi]), MustKill: true}}})
		}
		for i := 0; i < c.Pick(3, 9); i++ {
			mi := pr.Intn(nm)
			f := Pick(pr, []string{"get", "copy", "short"})
			// a crash before the zip reached its final name, so that the retry downloads again
			cases = append(cases, p4c{mi, "fetch", []c16Step{{Crash: 1 + pr.Intn(2), MustKill: true}, {Fault: f}}})
		}
		cases = append(cases, p4c{pr.Intn(nm), "modfile", []c16Step{{Fault: "modget"}, {Crash: 1 + pr.Intn(3), MustKill: true}}})
		cases = append(cases, p4c{pr.Intn(nm), "modfile", []c16Step{{Crash: 1 + pr.Intn(2), MustKill: true}, {Fault: "modget"}}})
		chains := make([]*c16Chain, len(cases))
		c16Pool(len(cases), poolSize, func(i int) {
			x := cases[i]
			chains[i] = p.chainPrep(env, "P4", fmt.Sprintf("p4-%d", i), x.mi, x.kind, x.steps)
		})
		bufs, _ := p.runChains(env, "p4", chains, 4)
		p.flush(bufs)
	}

	// P8: the `.tmp-` sibling cleanup against a version whose name extends another version's
	// name by ".tmp-…" (both valid semantic versions).
	if want("P8") {
		pairs := [][2]int{{6, 5}, {5, 6}, {7, 5}, {5, 7}}
		bufs := make([]*c16Buf, len(pairs))
		c16Pool(len(pairs), 4, func(i int) { bufs[i] = p.p8Case(env, pairs[i][0], pairs[i][1]) })
		p.flush(bufs)
	}

	// P7: controlled interleavings of a lock-free reader with a writer.
	if want("P7") {
		mis := []int{0}
		if c.Thorough() {
			mis = []int{0, 1, 2}
		}
		type p7c struct {
			mi     int
			reader string
			crash  int
		}
		var cases []p7c
		for _, mi := range mis {
			n := env.mods[mi].N()
			// initial states: empty cache; killed in the middle of the extraction (one file
			// written, the next created); killed with the complete directory and a stale marker
			for _, crash := range []int{0, 11, 9 + 2*n} {
				for _, rd := range []string{"fromcache", "fetch"} {
					if rd == "fetch" && crash > 11 && !c.Thorough() && !c.Focus {
						continue
					}
					cases = append(cases, p7c{mi, rd, crash})
				}
			}
		}
		bufs := make([]*c16Buf, len(cases))
		c16Pool(len(cases), poolSize, func(i int) {
			bufs[i] = p.p7Case(env, i, cases[i].mi, cases[i].reader, cases[i].crash)
		})
		p.flush(bufs)
	}

	// P7x: an extraction of version B parked at every hook point while version A (a sibling
	// whose directory name is a prefix / an extension of B's, or an unrelated one) is fetched.
	if want("P7") {
		pairs := [][2]int{{1, 0}, {2, 0}, {0, 1}, {3, 0}}
		if c.Thorough() || c.Focus {
			pairs = append(pairs, [2]int{3, 1}, [2]int{0, 2}, [2]int{4, 0}, [2]int{1, 2})
		}
		bufs := make([]*c16Buf, len(pairs))
		c16Pool(len(pairs), poolSize, func(i int) { bufs[i] = p.p7Cross(env, i, pairs[i][0], pairs[i][1]) })
		p.flush(bufs)
	}

	// P6: staggered pairs.
	if want("P6") {
		type p6c struct {
			mi   int
			hook string
			two  bool
		}
		var cases []p6c
		pr := rP6
		if c.Thorough() {
			for mi := 0; mi < nm; mi++ {
				for _, h := range c16PauseHooks {
					cases = append(cases, p6c{mi, h, false}, p6c{mi, h, true})
				}
			}
		} else {
			hooks := append([]string(nil), c16PauseHooks...)
			Shuffle(pr, hooks)
			if !c.Focus { // the failing-input search tries every pause point
				hooks = hooks[:3]
			}
			for i, h := range hooks {
				cases = append(cases, p6c{pr.Intn(nm), h, i%2 == 1})
			}
		}
		bufs := make([]*c16Buf, len(cases))
		c16Pool(len(cases), poolSize, func(i int) {
			bufs[i] = p.p6Case(env, i, cases[i].mi, cases[i].hook, cases[i].two)
		})
		p.flush(bufs)
	}

	// P5: concurrency rounds.
	if want("P5") {
		rounds := c.Pick(4, 60)
		if c.Focus && !c.Thorough() {
			rounds = 12
		}
		rs := make([]*Rng, rounds)
		pr := rP5
		for i := range rs {
			rs[i] = pr.Sub()
		}
		bufs := make([]*c16Buf, rounds)
		c16Pool(rounds, 4, func(i int) { bufs[i] = p.p5Case(env, i, rs[i]) })
		p.flush(bufs)
	}
}

// ---- P7: controlled interleavings ------------------------------------------------------
//
// One child process runs MANY schedules of two threads in-process: a writer W (a cold or
// recovering Cache.Fetch) and a lock-free reader R (Cache.FetchFromCache, or Cache.Fetch whose
// fast path is the same two stat calls), each with its own Cache (as two processes would
// have; flock is per open file description).  verifhook.SetHook turns the hook points into
// rendezvous: the callback recognises the calling goroutine and parks it at a chosen hook
// index until the controller releases it.  A schedule (w1, r, w2) is
//
//	W runs to its w1-th hook point and parks (w1 = 0: not started yet);
//	R runs: to completion (r = 0), or to its first hook point (r = 1) and parks;
//	  W runs on to its w2-th hook point (or to completion) and parks;
//	  R runs to completion;               <- the property's observable is evaluated HERE
//	W runs to completion; a fresh FetchFromCache must then serve the complete module.
//
// Only one thread runs at any time, so the history is a sequence of hook events with on-disk
// snapshots; it goes to the model as a `trace2` op.  When R is a Fetch that leaves its fast
// path (any hook other than downloaddir.between-stats) it will contend for the lock, so
// from then on both threads run freely ("free"); the recorded history ends there.

type c16ILSpec struct {
	Mod      int
	Reader   string // fromcache | fetch
	Template string // "" = empty cache; else a cache directory to copy for every schedule
	Races    int    // additional free-running poller rounds
	// Sweep: with a parked reader try every w2 > w1; otherwise only w2 = w1 and "W to completion"
	Sweep bool
	// Cross: instead of a reader of the same version, a Fetch of ANOTHER module version
	// (index Other) runs to completion while the writer of Mod is parked at each hook point.
	Cross bool
	Other int
}

type c16ILEvent struct {
	Role string // W | R
	Hook string // hook name, or ret:avail / ret:err
	Snap string
}

type c16ILRun struct {
	W1, R, W2 int // W2 < 0: W runs to completion in the middle segment
	Init      string
	Events    []c16ILEvent
	Free      bool   // R left its fast path; the tail of the run was not scheduled
	RRet      string // avail | err
	RVerdict  string // content check made at the moment R returned (W still parked)
	RParked   bool   // R reached a hook point (r = 1 only)
	WRet      string
	WVerdict  string
	WHooks    int    // hook points W passed in total
	WEnded    bool   // W finished before reaching w1 (the schedule does not exist)
	Final     string // verdict of a fresh FetchFromCache after both finished
	FinalSnap string
	Deadlock  string
	XRet      string // cross mode: the other version's Fetch
	XVerdict  string
	FinalX    string
}

type c16ILOut struct {
	Runs      []c16ILRun
	RacePolls int
	RaceAvail int
	RaceBad   []string
}

func c16Gid() uint64 {
	var buf [64]byte
	n := runtime.Stack(buf[:], false)
	// "goroutine 123 [running]:"
	f := strings.Fields(string(buf[:n]))
	if len(f) < 2 {
		return 0
	}
	id, _ := strconv.ParseUint(f[1], 10, 64)
	return id
}

type c16ILCtl struct {
	mu     sync.Mutex
	dir    string
	m      *c16Mod
	role   map[uint64]string
	count  map[string]int
	parkAt map[string]int // park the role at this hook index (0 = never)
	gate   map[string]chan struct{}
	note   chan string // "W parked", "R done", "free", …
	events []c16ILEvent
	free   bool
	dead   string
	done   map[string]bool
}

const c16ILGuard = 90 * time.Second // deadlock guard only; never decides a verdict

func (ct *c16ILCtl) hook(name string) {
	ct.mu.Lock()
	role := ct.role[c16Gid()]
	if role == "" || ct.free {
		ct.mu.Unlock()
		return
	}
	ct.count[role]++
	k := ct.count[role]
	if role == "R" && name != "downloaddir.between-stats" {
		// the reader left the lock-free fast path: stop scheduling, release everybody
		ct.free = true
		for r, g := range ct.gate {
			close(g)
			delete(ct.gate, r)
		}
		ct.mu.Unlock()
		ct.note <- "free"
		return
	}
	ct.events = append(ct.events, c16ILEvent{role, name, c16Snapshot(ct.dir, ct.m)})
	if ct.parkAt[role] != k {
		ct.mu.Unlock()
		return
	}
	g := make(chan struct{})
	ct.gate[role] = g
	ct.mu.Unlock()
	ct.note <- role + " parked"
	select {
	case <-g:
	case <-time.After(c16ILGuard):
		ct.mu.Lock()
		ct.dead = role + " was never released at " + name
		ct.mu.Unlock()
	}
}

// goFree ends the scheduling: nothing is recorded or parked any more, everybody runs.
func (ct *c16ILCtl) goFree() {
	ct.mu.Lock()
	ct.free = true
	for r, g := range ct.gate {
		close(g)
		delete(ct.gate, r)
	}
	ct.mu.Unlock()
}

// release lets a parked role run on, to park again at hook index `next` (0 = never).
func (ct *c16ILCtl) release(role string, next int) {
	ct.mu.Lock()
	ct.parkAt[role] = next
	if g := ct.gate[role]; g != nil {
		close(g)
		delete(ct.gate, role)
	}
	ct.mu.Unlock()
}

// wait blocks until one of the wanted notes arrives ("free" always ends the wait).
func (ct *c16ILCtl) wait(want ...string) string {
	for {
		select {
		case n := <-ct.note:
			if n == "free" {
				return n
			}
			for _, w := range want {
				if n == w {
					return n
				}
			}
		case <-time.After(c16ILGuard):
			ct.mu.Lock()
			ct.dead = "controller waited in vain for " + strings.Join(want, "/")
			ct.mu.Unlock()
			return "deadlock"
		}
	}
}

func c16CopyTree(src, dst string) error {
	return filepath.WalkDir(src, func(p string, d fs.DirEntry, err error) error {
		if err != nil {
			return err
		}
		rel, _ := filepath.Rel(src, p)
		to := filepath.Join(dst, rel)
		if d.IsDir() {
			return os.MkdirAll(to, 0o777)
		}
		data, err := os.ReadFile(p)
		if err != nil {
			return err
		}
		info, err := d.Info()
		if err != nil {
			return err
		}
		if err := os.WriteFile(to, data, 0o666); err != nil {
			return err
		}
		return os.Chmod(to, info.Mode().Perm())
	})
}

type c16ILThread struct {
	ret, verdict string
	loc          module.SourceLoc
}

func c16ILChild(spec *c16Spec, mods []*c16Mod) {
	il := spec.IL
	m := mods[il.Mod]
	ctx := context.Background()
	newCache := func(dir string) *modcache.Cache {
		reg, err := ociclient.New(spec.Host, &ociclient.Options{
			Insecure:  true,
			Transport: &c16Transport{id: spec.WorkerID, base: http.DefaultTransport},
		})
		if err != nil {
			fmt.Fprintln(os.Stderr, "C16 worker:", err)
			os.Exit(3)
		}
		c, err := modcache.New(modregistry.NewClient(reg), dir)
		if err != nil {
			fmt.Fprintln(os.Stderr, "C16 worker:", err)
			os.Exit(3)
		}
		return c
	}
	call := func(c *modcache.Cache, kind string) (t c16ILThread) {
		defer func() {
			if e := recover(); e != nil {
				t.ret, t.verdict = "err", "panic: "+fmt.Sprint(e)
			}
		}()
		var err error
		if kind == "fetch" {
			t.loc, err = c.Fetch(ctx, m.MV)
		} else {
			t.loc, err = c.FetchFromCache(m.MV)
		}
		if err != nil {
			t.ret, t.verdict = "err", err.Error()
			return
		}
		t.ret = "avail"
		return
	}
	freshDir := func() string {
		dir, err := os.MkdirTemp(spec.CacheDir, "il-")
		if err == nil && il.Template != "" {
			err = c16CopyTree(il.Template, dir)
		}
		if err != nil {
			fmt.Fprintln(os.Stderr, "C16 worker:", err)
			os.Exit(3)
		}
		return dir
	}

	// one schedule
	runOne := func(w1, r, w2 int) c16ILRun {
		dir := freshDir()
		defer modcache.RemoveAll(dir)
		run := c16ILRun{W1: w1, R: r, W2: w2, Init: c16Snapshot(dir, m)}
		ct := &c16ILCtl{dir: dir, m: m, role: map[uint64]string{}, count: map[string]int{},
			parkAt: map[string]int{}, gate: map[string]chan struct{}{}, note: make(chan string, 16), done: map[string]bool{}}
		verifhook.SetHook(ct.hook)
		defer verifhook.SetHook(nil)
		var wt, rt c16ILThread
		start := func(role, kind string, res *c16ILThread, park int) {
			c := newCache(dir)
			ready := make(chan struct{})
			go func() {
				ct.mu.Lock()
				ct.role[c16Gid()] = role
				ct.parkAt[role] = park
				ct.mu.Unlock()
				close(ready)
				*res = call(c, kind)
				ct.mu.Lock()
				ct.done[role] = true
				ct.mu.Unlock()
				ct.note <- role + " done"
			}()
			<-ready
		}
		wStarted, wDone, rDone := false, false, false
		free := false
		retEvent := func(role string, t *c16ILThread) {
			if t.ret == "avail" {
				t.verdict = c16CompareLoc(t.loc, m) // evaluated NOW, the other thread still parked
			}
			if !free {
				ct.mu.Lock()
				ct.events = append(ct.events, c16ILEvent{role, "ret:" + t.ret, c16Snapshot(dir, m)})
				ct.mu.Unlock()
			}
		}
		// drain waits for both threads once scheduling has ended
		drain := func() {
			deadline := time.Now().Add(c16ILGuard)
			for {
				ct.mu.Lock()
				wd, rd := !wStarted || ct.done["W"], ct.done["R"]
				ct.mu.Unlock()
				if wd && rd {
					wDone, rDone = wStarted, true
					_ = rDone
					return
				}
				if time.Now().After(deadline) {
					ct.mu.Lock()
					ct.dead = "threads did not finish after the schedule ended"
					ct.mu.Unlock()
					return
				}
				select {
				case <-ct.note:
				case <-time.After(20 * time.Millisecond):
				}
			}
		}
		note := func(n string) {
			switch n {
			case "W done":
				wDone = true
				retEvent("W", &wt)
			case "R done":
				rDone = true
				retEvent("R", &rt)
			case "free":
				free = true
			}
		}
		finish := func() c16ILRun {
			ct.mu.Lock()
			run.Events, run.Deadlock, run.WHooks = ct.events, ct.dead, ct.count["W"]
			ct.mu.Unlock()
			run.Free = free
			if rt.ret == "avail" && rt.verdict == "" {
				rt.verdict = c16CompareLoc(rt.loc, m)
			}
			if wt.ret == "avail" && wt.verdict == "" {
				wt.verdict = c16CompareLoc(wt.loc, m)
			}
			run.RRet, run.RVerdict, run.WRet, run.WVerdict = rt.ret, rt.verdict, wt.ret, wt.verdict
			ft := call(newCache(dir), "fromcache")
			if ft.ret == "avail" {
				run.Final = c16CompareLoc(ft.loc, m)
			} else {
				run.Final = "not available: " + ft.verdict
			}
			run.FinalSnap = c16Snapshot(dir, m)
			return run
		}
		// 1. W to w1
		if w1 > 0 {
			wStarted = true
			start("W", "fetch", &wt, w1)
			n := ct.wait("W parked", "W done")
			note(n)
			if n == "W done" {
				run.WEnded = true
			}
			if n == "deadlock" {
				return finish()
			}
		}
		// 2. R
		if !run.WEnded {
			park := 0
			if r > 0 {
				park = 1
			}
			// A reader Fetch that finds no zip while the writer holds the lock blocks inside
			// lockVersion without passing a hook point: the schedule ends here by construction.
			if now := c16Snapshot(dir, m); il.Reader == "fetch" && c16Field(now, 'z') == "-" && c16Field(now, 'l') == "1" {
				free = true
				ct.goFree()
			}
			start("R", il.Reader, &rt, park)
			n := "free"
			if !free {
				n = ct.wait("R parked", "R done")
				note(n)
			}
			if n == "R parked" {
				run.RParked = true
				// 3. W on to w2 (or to completion)
				if !wStarted && (w2 < 0 || w2 > w1) {
					wStarted = true
					next := w2
					if next < 0 {
						next = 0
					}
					start("W", "fetch", &wt, next)
					n = ct.wait("W parked", "W done")
					note(n)
				} else if wStarted && !wDone && (w2 < 0 || w2 > w1) {
					next := w2
					if next < 0 {
						next = 0
					}
					ct.release("W", next)
					n = ct.wait("W parked", "W done")
					note(n)
				}
				// 4. R to completion
				if now := c16Snapshot(dir, m); !free && il.Reader == "fetch" && c16Field(now, 'z') == "-" && c16Field(now, 'l') == "1" {
					// (cannot happen with the unmodified downloadDir: a parked reader has seen the
					// directory, so the zip exists) the reader would block inside lockVersion
					free = true
					ct.goFree()
					n = "free"
				}
				if !free && n != "deadlock" {
					ct.release("R", 0)
					n = ct.wait("R done")
					note(n)
				}
			}
			if free || n == "deadlock" {
				if free {
					if !wStarted { // the reader ran into the slow path before the writer existed
						wStarted = true
						start("W", "fetch", &wt, 0)
					}
					drain()
				}
				return finish()
			}
		}
		// 5. W to completion
		if !wStarted {
			wStarted = true
			start("W", "fetch", &wt, 0)
			note(ct.wait("W done"))
		} else if !wDone {
			ct.release("W", 0)
			note(ct.wait("W done"))
		}
		return finish()
	}

	out := &c16ILOut{}
	if il.Cross {
		mx := mods[il.Other]
		for w1 := 0; w1 < 200; w1++ {
			dir := freshDir()
			run := c16ILRun{W1: w1, Init: c16Snapshot(dir, m)}
			ct := &c16ILCtl{dir: dir, m: m, role: map[uint64]string{}, count: map[string]int{},
				parkAt: map[string]int{}, gate: map[string]chan struct{}{}, note: make(chan string, 16), done: map[string]bool{}}
			verifhook.SetHook(ct.hook)
			var wt c16ILThread
			wStarted, wDone := false, false
			startW := func(park int) {
				wStarted = true
				c := newCache(dir)
				ready := make(chan struct{})
				go func() {
					ct.mu.Lock()
					ct.role[c16Gid()] = "W"
					ct.parkAt["W"] = park
					ct.mu.Unlock()
					close(ready)
					wt = call(c, "fetch")
					ct.note <- "W done"
				}()
				<-ready
			}
			if w1 > 0 {
				startW(w1)
				if n := ct.wait("W parked", "W done"); n == "W done" {
					wDone, run.WEnded = true, true
				}
			}
			if !run.WEnded {
				// the other version: fetched to completion by another Cache (its hook points are
				// not recorded: the goroutine has no role)
				xc := newCache(dir)
				xloc, xerr := xc.Fetch(ctx, mx.MV)
				if xerr != nil {
					run.XRet, run.XVerdict = "err", xerr.Error()
				} else {
					run.XRet, run.XVerdict = "avail", c16CompareLoc(xloc, mx)
				}
				if !wStarted {
					startW(0)
					ct.wait("W done")
				} else if !wDone {
					ct.release("W", 0)
					ct.wait("W done")
				}
				if wt.ret == "avail" {
					wt.verdict = c16CompareLoc(wt.loc, m)
				}
				ct.mu.Lock()
				ct.events = append(ct.events, c16ILEvent{"W", "ret:" + wt.ret, c16Snapshot(dir, m)})
				run.Events, run.Deadlock, run.WHooks = ct.events, ct.dead, ct.count["W"]
				ct.mu.Unlock()
				run.WRet, run.WVerdict = wt.ret, wt.verdict
				if ft := call(newCache(dir), "fromcache"); ft.ret == "avail" {
					run.Final = c16CompareLoc(ft.loc, m)
				} else {
					run.Final = "not available"
				}
				if xl, err := newCache(dir).FetchFromCache(mx.MV); err == nil {
					run.FinalX = c16CompareLoc(xl, mx)
				} else {
					run.FinalX = "not available: " + err.Error()
				}
				run.FinalSnap = c16Snapshot(dir, m)
			}
			verifhook.SetHook(nil)
			modcache.RemoveAll(dir)
			if run.WEnded {
				break
			}
			out.Runs = append(out.Runs, run)
		}
		b, _ := json.Marshal(out)
		os.Stdout.Write(append(b, '\n'))
		return
	}
	// every w1 (until the writer has no such hook point), r = 0 and r = 1; for r = 1 with a
	// parked reader every w2 > w1 and "to completion"
	for w1 := 0; w1 < 200; w1++ {
		a := runOne(w1, 0, w1)
		if a.WEnded {
			break
		}
		out.Runs = append(out.Runs, a)
		b := runOne(w1, 1, w1)
		if !b.RParked {
			continue // the reader passes no hook point in this state: same as r = 0
		}
		out.Runs = append(out.Runs, b)
		if !il.Sweep {
			c := runOne(w1, 1, 199)
			c.W2 = -1
			out.Runs = append(out.Runs, c)
			continue
		}
		for w2 := w1 + 1; w2 < 200; w2++ {
			c := runOne(w1, 1, w2)
			if c.WHooks < w2 { // W finished before w2: that was the "to completion" run
				c.W2 = -1
				out.Runs = append(out.Runs, c)
				break
			}
			out.Runs = append(out.Runs, c)
		}
	}
	// free-running poller: R polls while W runs, W yields at every hook point
	for i := 0; i < il.Races; i++ {
		dir := freshDir()
		verifhook.SetHook(func(string) { time.Sleep(300 * time.Microsecond) })
		stop := make(chan struct{})
		polled := make(chan struct{})
		go func() {
			defer close(polled)
			rc := newCache(dir)
			for {
				select {
				case <-stop:
					return
				default:
				}
				t := call(rc, "fromcache")
				out.RacePolls++
				if t.ret == "avail" {
					out.RaceAvail++
					if v := c16CompareLoc(t.loc, m); v != "equal" && len(out.RaceBad) < 5 {
						out.RaceBad = append(out.RaceBad, v)
					}
				}
			}
		}()
		wt := call(newCache(dir), "fetch")
		close(stop)
		<-polled
		verifhook.SetHook(nil)
		if wt.ret != "avail" {
			out.RaceBad = append(out.RaceBad, "writer failed: "+wt.verdict)
		} else if v := c16CompareLoc(wt.loc, m); v != "equal" {
			out.RaceBad = append(out.RaceBad, "writer: "+v)
		}
		modcache.RemoveAll(dir)
	}
	b, _ := json.Marshal(out)
	os.Stdout.Write(append(b, '\n'))
}

// p7Case: one child running every schedule for (module, reader kind, initial state).
func (p *c16Parent) p7Case(env *c16Env, idx, mi int, reader string, crash int) *c16Buf {
	m := env.mods[mi]
	n := m.N()
	cs := p.newCase(env, fmt.Sprintf("p7-%d", idx), map[string]any{"module": mi, "reader": reader, "initCrashAt": crash})
	defer cs.close()
	b := cs.buf
	b.Count("phase=P7")
	// the template: a cache left behind by a writer killed at hook `crash`
	tmpl := ""
	if crash > 0 {
		tmpl = filepath.Join(cs.dir, "template")
		os.MkdirAll(tmpl, 0o777)
		w := cs.worker("template")
		sp := cs.spec(w, c16OneJob("fetch", mi), false)
		sp.CacheDir = tmpl
		run := p.start(sp, crash).wait()
		if !run.Killed {
			b.Direct(false, "crash-not-delivered", fmt.Sprintf("P7 template: fetch child was not killed at hook %d", crash), cs.replay)
			return b
		}
	}
	work := filepath.Join(cs.dir, "work")
	os.MkdirAll(work, 0o777)
	w := cs.worker("interleave")
	sp := cs.spec(w, nil, false)
	sp.CacheDir = work
	// quick tier: every (w1, w2) pair for FetchFromCache from the empty cache; otherwise only
	// "W stays" and "W finishes" for a parked reader; thorough and -focus: every pair everywhere
	sp.IL = &c16ILSpec{Mod: mi, Reader: reader, Template: tmpl, Races: 2,
		Sweep: (crash == 0 && reader == "fromcache") || ((p.c.Thorough() || p.c.Focus) && (reader == "fromcache" || mi == 0))}
	proc := p.start(sp, 0)
	<-proc.done
	raw := proc.stdout.String()
	run := proc.wait()
	if run.Timeout || run.Fail != "" {
		cs.checkRun(run, "interleave")
		return b
	}
	var out c16ILOut
	lines := strings.Split(strings.TrimSpace(raw), "\n")
	if err := json.Unmarshal([]byte(lines[len(lines)-1]), &out); err != nil {
		b.Direct(false, "child-failed", "P7 child output unreadable: "+c16Clip(raw), cs.replay)
		return b
	}
	b.Count(fmt.Sprintf("p7 schedules reader=%s init-crash=%d: %d", reader, crash, len(out.Runs)))
	for _, r := range out.Runs {
		sched := fmt.Sprintf("W to hook %d; R(%s) %s; W to hook %d; R returns; W finishes", r.W1, reader,
			map[bool]string{false: "runs to completion", true: "parks at its first hook"}[r.R > 0], r.W2)
		rp := map[string]any{"seed": p.c.Seed, "modseed": env.seed, "case": cs.id, "module": mi, "reader": reader,
			"initCrashAt": crash, "init": r.Init, "w1": r.W1, "r": r.R, "w2": r.W2, "schedule": sched}
		var evs []string
		for _, e := range r.Events {
			evs = append(evs, e.Role+":"+e.Hook+"="+e.Snap)
			b.Safe(n, e.Snap, rp)
		}
		b.Count("p7-schedules")
		if r.Free {
			b.Count("p7-reader-left-fast-path")
		}
		if r.RParked {
			b.Count("p7-reader-parked-between-stats")
		}
		if r.RRet == "avail" {
			b.Count("p7-reader-served")
		}
		b.Direct(r.Deadlock == "", "interleave-deadlock", "schedule ["+sched+"]: "+r.Deadlock, rp)
		// the property's observable: what the reader was handed, at the moment it was handed
		b.Direct(r.RRet != "avail" || r.RVerdict == "equal", "interleave-served-incomplete",
			fmt.Sprintf("schedule [%s] from %s: the reader was handed an incomplete directory: %s (history: %s)", sched, r.Init, r.RVerdict, strings.Join(evs, " ")), rp)
		b.Direct(r.WRet == "avail" && r.WVerdict == "equal", "interleave-writer-failed",
			fmt.Sprintf("schedule [%s] from %s: the writer's Fetch: %s %s", sched, r.Init, r.WRet, r.WVerdict), rp)
		if reader == "fetch" {
			b.Direct(r.RRet == "avail", "interleave-reader-failed",
				fmt.Sprintf("schedule [%s] from %s: the reader's Fetch failed: %s", sched, r.Init, r.RVerdict), rp)
		}
		b.Direct(r.Final == "equal", "interleave-final-wrong",
			fmt.Sprintf("schedule [%s] from %s: FetchFromCache after both finished: %s (state %s)", sched, r.Init, r.Final, r.FinalSnap), rp)
		b.Safe(n, r.FinalSnap, rp)
		line := fmt.Sprintf("trace2 %d %s %s", n, reader, r.Init)
		if len(evs) > 0 {
			line += " " + strings.Join(evs, " ")
		}
		nev := len(evs)
		b.add(func(p *c16Parent) {
			if !p.c.Focus {
				if !p.fcSeen[line] {
					p.fcSeen[line] = true
					p.c.Op("I", line, fmt.Sprintf("ok %d", nev))
					p.c.Trace()
				}
			}
			p.c.Case(line, nev >= 3)
		})
	}
	b.Count("p7-race-rounds")
	b.Direct(len(out.RaceBad) == 0, "race-served-incomplete",
		"free-running FetchFromCache poller during a Fetch: "+strings.Join(out.RaceBad, "; "), cs.replay)
	return b
}

// p8Case: version `first` is fetched completely, then version `second` of the same module is
// fetched for the first time in the same cache; `first` must still be served complete.
func (p *c16Parent) p8Case(env *c16Env, first, second int) *c16Buf {
	cs := p.newCase(env, fmt.Sprintf("p8-%d-%d", first, second), map[string]any{"first": first, "second": second})
	defer cs.close()
	b := cs.buf
	b.Count("phase=P8")
	mf, ms := env.mods[first], env.mods[second]
	jobs := []c16Job{
		{Kind: "fetch", Mod: first},
		{Kind: "fromcache", Mod: first, Fresh: true},
		{Kind: "fetch", Mod: second},
		{Kind: "fromcache", Mod: first, Fresh: true},
		{Kind: "fromcache", Mod: second, Fresh: true},
	}
	run, _ := cs.run("probe", jobs, c16Opts{Trace: true})
	if run.Out == nil || len(run.Out.Results) != len(jobs) {
		return b
	}
	rs := run.Out.Results
	okEq := func(r c16Result) bool { return r.Ok && r.Verdict == "equal" }
	b.Direct(okEq(rs[0]) && okEq(rs[1]) && okEq(rs[2]) && okEq(rs[4]), "clean-fetch-failed",
		fmt.Sprintf("fetching %s then %s into one cache failed", mf.MV, ms.MV), cs.replay)
	// (v0.0.1-a.tmp-x was removed by the sibling cleanup before f81b1df, v0.0.1-a.tmp-1 before
	// 01b58aa; a relapse is a plain violation)
	class := "cross-version-damaged"
	snap := cs.snap(mf)
	b.Direct(okEq(rs[3]), class,
		fmt.Sprintf("%s was fetched completely and served; after the first Fetch of %s in the same cache FetchFromCache(%s) answers: ok=%v %s %s (state %s)",
			mf.MV, ms.MV, mf.MV, rs[3].Ok, rs[3].Verdict, rs[3].ErrText, snap), cs.replay)
	return b
}

// p7Cross: module B's extraction is parked at every hook point in turn while module A is
// fetched to completion in the same cache by another Cache; B's Fetch must end with an error
// or with the complete module, and what is served afterwards must be complete.
func (p *c16Parent) p7Cross(env *c16Env, idx, mb, ma int) *c16Buf {
	m, mA := env.mods[mb], env.mods[ma]
	n := m.N()
	cs := p.newCase(env, fmt.Sprintf("p7x-%d", idx), map[string]any{"extracting": m.MV.String(), "fetchedMeanwhile": mA.MV.String()})
	defer cs.close()
	b := cs.buf
	b.Count("phase=P7x")
	w := cs.worker("cross")
	sp := cs.spec(w, nil, false)
	sp.IL = &c16ILSpec{Mod: mb, Cross: true, Other: ma}
	proc := p.start(sp, 0)
	<-proc.done
	raw := proc.stdout.String()
	run := proc.wait()
	if run.Timeout || run.Fail != "" {
		cs.checkRun(run, "cross")
		return b
	}
	var out c16ILOut
	lines := strings.Split(strings.TrimSpace(raw), "\n")
	if err := json.Unmarshal([]byte(lines[len(lines)-1]), &out); err != nil {
		b.Direct(false, "child-failed", "P7x child output unreadable: "+c16Clip(raw), cs.replay)
		return b
	}
	for _, r := range out.Runs {
		sched := fmt.Sprintf("Fetch(%s) runs to its hook point %d and parks; Fetch(%s) runs to completion in the same cache; Fetch(%s) resumes", m.MV, r.W1, mA.MV, m.MV)
		rp := map[string]any{"seed": p.c.Seed, "modseed": env.seed, "case": cs.id, "extracting": m.MV.String(),
			"fetchedMeanwhile": mA.MV.String(), "w1": r.W1, "schedule": sched}
		b.Count("p7x-schedules")
		var evs []c16Event
		ret := "err"
		for _, e := range r.Events {
			if strings.HasPrefix(e.Hook, "ret:") {
				ret = strings.TrimPrefix(e.Hook, "ret:")
				continue
			}
			evs = append(evs, c16Event{e.Hook, e.Snap})
		}
		b.Direct(r.Deadlock == "", "interleave-deadlock", "schedule ["+sched+"]: "+r.Deadlock, rp)
		b.Direct(r.XRet == "avail" && r.XVerdict == "equal", "interleave-writer-failed",
			fmt.Sprintf("schedule [%s]: Fetch(%s): %s %s", sched, mA.MV, r.XRet, r.XVerdict), rp)
		// the property's observable: B's Fetch ends with an error or hands out the complete module
		b.Direct(r.WRet != "avail" || r.WVerdict == "equal", "cross-version-served-incomplete",
			fmt.Sprintf("schedule [%s]: Fetch(%s) reported success for an incomplete directory: %s (state %s)", sched, m.MV, r.WVerdict, r.FinalSnap), rp)
		b.Direct(r.Final == "equal" || r.Final == "not available", "cross-version-served-incomplete",
			fmt.Sprintf("schedule [%s]: afterwards FetchFromCache(%s) serves: %s (state %s)", sched, m.MV, r.Final, r.FinalSnap), rp)
		b.Direct(r.FinalX == "equal", "cross-version-damaged",
			fmt.Sprintf("schedule [%s]: afterwards FetchFromCache(%s): %s", sched, mA.MV, r.FinalX), rp)
		b.Safe(n, r.FinalSnap, rp)
		// B's own history must be a run of the model on B's component alone (independence)
		b.TraceOp("fetch", n, "none", r.Init, ret, evs, rp)
	}
	return b
}
