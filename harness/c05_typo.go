package main

// C05, evidence level: the observable of the typo check (internal/core/adt/typocheck.go
// checkTypos) through the public API is the set of "field not allowed" errors of the value,
// one per denied arc, each with its path.  c5denied canonicalises it to the minimal paths
// (no proper prefix in the set), relative to x, dotted, sorted, comma separated ("-" = none).
// The same string is produced by the Lean driver from the spec (`den`, class O) and from the
// transcription of the evidence algorithm (`tyev`, class I).

import (
	"sort"
	"strings"

	"cuelang.org/go/cue"
	"cuelang.org/go/cue/errors"
)

func c5denied(x cue.Value) string {
	err := x.Validate()
	if err == nil {
		return "-"
	}
	var paths [][]string
	for _, e := range errors.Errors(err) {
		format, _ := e.Msg()
		if !strings.Contains(format, "not allowed") {
			// another kind of error (conflict, …) is present: the evaluator then drops or
			// keeps "field not allowed" errors depending on evaluation order
			// (notAllowedError: `if ctx.HasErr() { return nil }`); no observable
			return ""
		}
		p := e.Path()
		if len(p) == 0 || p[0] != "x" {
			continue
		}
		paths = append(paths, p[1:])
	}
	isPrefix := func(q, p []string) bool {
		if len(q) >= len(p) {
			return false
		}
		for i := range q {
			if q[i] != p[i] {
				return false
			}
		}
		return true
	}
	seen := map[string]bool{}
	var out []string
	for _, p := range paths {
		min := true
		for _, q := range paths {
			if isPrefix(q, p) {
				min = false
				break
			}
		}
		s := strings.Join(p, ".")
		if min && !seen[s] && len(p) > 0 {
			seen[s] = true
			out = append(out, s)
		}
	}
	if len(out) == 0 {
		return "-"
	}
	sort.Strings(out)
	return strings.Join(out, ",")
}

func c5hasRequiredErr(err error) bool {
	for _, e := range errors.Errors(err) {
		format, _ := e.Msg()
		if strings.Contains(format, "required") {
			return true
		}
	}
	return false
}

// c5hasRequiredDecl: the source has a required field constraint (`l!:`).  When the result is
// an error, a required field that is still missing masks the "field not allowed" errors of
// its struct in Validate() (only deeper ones are listed); such cases have no reliable
// evidence-level observable.
func c5hasRequiredDecl(hasBang bool) bool { return hasBang }

// c5attributeDen: known-finding class of a REJECTED case whose set of denied paths may be
// incomplete because of a known shape (e.g. `close(#S) & {a: {c: 1}, b: 1}`: `b` is reported,
// `a.c` is lost).  Shape + direction + counterfactual, as c5attribute: the class counts only
// if rewriting just that shape into its spec-equivalent form makes the implementation deny a
// strict superset of the paths it denies now.
func c5attributeDen(schema, data *c5e, denied string) string {
	if denied == "" {
		return ""
	}
	cur := map[string]bool{}
	if denied != "-" {
		for _, p := range strings.Split(denied, ",") {
			cur[p] = true
		}
	}
	for _, k := range c5shapeClasses(schema) {
		r := c5eval(c5source(schema.repair(k, false), data), false).denied
		if r == "" || r == "-" {
			continue
		}
		rs := strings.Split(r, ",")
		super := len(rs) > len(cur)
		have := map[string]bool{}
		for _, p := range rs {
			have[p] = true
		}
		for p := range cur {
			// a path may be replaced by one of its prefixes (minimal paths)
			ok := have[p]
			for q := range have {
				if strings.HasPrefix(p, q+".") {
					ok = true
				}
			}
			if !ok {
				super = false
			}
		}
		if super {
			return k
		}
	}
	return ""
}
