package main

// C09 — the parser is total and literals round-trip through quoting.
//
// Streams:
//   quote    adversarial strings x every Form the library can build: literal.Form.Quote /
//            Append compared BYTE FOR BYTE with the model (I), Unquote of the result compared
//            (I), and the property predicates on the implementation alone (Direct):
//            Unquote(Quote(s)) == s, ASCII-only output, the literal scans as one STRING token.
//   unquote  malformed / mutated literals: literal.Unquote vs the model (I).
//   utf8     the model's own UTF-8 decoder/encoder and IsSpace table vs Go's (I).
//   num      number spellings: scanner vs literal.ParseNum vs the model (I + Direct agreement).
//   ident    identifier spellings: scanner vs ast.IsValidIdent vs the model (I + Direct).
//   parser   corpus files, byte-level mutations, token soups: no panic, no hang, every node
//            and error position within the input, children within parents, siblings ordered.

import (
	"bytes"
	"fmt"
	"os"
	"path/filepath"
	"sort"
	"strconv"
	"strings"
	"sync"
	"time"
	"unicode"
	"unicode/utf8"

	"cuelang.org/go/cue/ast"
	"cuelang.org/go/cue/errors"
	"cuelang.org/go/cue/literal"
	"cuelang.org/go/cue/parser"
	"cuelang.org/go/cue/scanner"
	"cuelang.org/go/cue/token"
	"golang.org/x/tools/txtar"
)

func init() { props["C09"] = runC09 }

// ---- forms ---------------------------------------------------------------------------

type c09Form struct {
	f    literal.Form
	code string // S|B + multiline auto autoHash asciiOnly graphicOnly . indent
	desc string
	ml   bool // WithTabIndent applied
	auto bool
	hash bool
	asc  bool
	byt  bool
}

// every Form the exported API can build (up to the number of tabs): base x indentation mode
// x optional hashes x ASCII-only x graphic-only.  Label is String (same value); it is
// exercised too.  WithOptionalTabIndent followed by WithTabIndent sets both flags.
func c09Forms(c *Cfg) []c09Form {
	var out []c09Form
	type ind struct {
		name   string
		ml, au bool
		n      int
		apply  func(literal.Form) literal.Form
	}
	inds := []ind{
		{"", false, false, 0, func(f literal.Form) literal.Form { return f }},
		{".WithTabIndent(0)", true, false, 0, func(f literal.Form) literal.Form { return f.WithTabIndent(0) }},
		{".WithTabIndent(1)", true, false, 1, func(f literal.Form) literal.Form { return f.WithTabIndent(1) }},
		{".WithTabIndent(3)", true, false, 3, func(f literal.Form) literal.Form { return f.WithTabIndent(3) }},
		{".WithOptionalTabIndent(2)", false, true, 2, func(f literal.Form) literal.Form { return f.WithOptionalTabIndent(2) }},
		{".WithOptionalTabIndent(0)", false, true, 0, func(f literal.Form) literal.Form { return f.WithOptionalTabIndent(0) }},
		{".WithOptionalTabIndent(5).WithTabIndent(1)", true, true, 1, func(f literal.Form) literal.Form { return f.WithOptionalTabIndent(5).WithTabIndent(1) }},
	}
	bases := []struct {
		name string
		f    literal.Form
		k    string
	}{{"String", literal.String, "S"}, {"Label", literal.Label, "S"}, {"Bytes", literal.Bytes, "B"}}
	b2 := func(b bool) string {
		if b {
			return "1"
		}
		return "0"
	}
	for _, b := range bases {
		for _, in := range inds {
			for m := 0; m < 8; m++ {
				h, a, g := m&1 != 0, m&2 != 0, m&4 != 0
				f := in.apply(b.f)
				d := "literal." + b.name + in.name
				if h {
					f = f.WithOptionalHashes()
					d += ".WithOptionalHashes()"
				}
				if a {
					f = f.WithASCIIOnly()
					d += ".WithASCIIOnly()"
				}
				if g {
					f = f.WithGraphicOnly()
					d += ".WithGraphicOnly()"
				}
				code := b.k + b2(in.ml) + b2(in.au) + b2(h) + b2(a) + b2(g) + "." + strconv.Itoa(in.n)
				out = append(out, c09Form{f: f, code: code, desc: d, ml: in.ml, auto: in.au, hash: h, asc: a, byt: b.k == "B"})
			}
		}
	}
	return out
}

// ---- string pool ---------------------------------------------------------------------

var c09Pieces = []string{
	`"`, `'`, `\`, `#`, `##`, `"""`, `'''`, `""`, `''`, "\n", "\r", "\r\n", "\t", " ", "a", "b", "x", "u", "0", "1", "(", ")", `\(`, `\#`, `\n`, `"#`, `"##`, `'#`, `\#(`,
	"é", "€", "😀", "\uFFFD", "\x00", "\x01", "\x07", "\x08", "\x0b", "\x0c", "\x1f", "\x7f", "\u0085", "\u00a0", "\u2028", "\u2029", "\ufeff", "\u00ad", "\ue000", "\U0010FFFF", "\u0300", "\u200b", "\u3000",
	"\x80", "\xbf", "\xff", "\xc0\x80", "\xc2", "\xed\xa0\x80", "\xe2\x82", "\xf4\x90\x80\x80", "\xf0\x9f\x98", "\xfe",
}

var c09Core = []string{`"`, `'`, `\`, `#`, "\n", "a", "\x80", "\r", "é", "\t", "\x00"}

func c09GenString(r *Rng) string {
	var sb strings.Builder
	n := r.Intn(9)
	if r.Chance(1, 12) {
		n = 8 + r.Intn(30)
	}
	for i := 0; i < n; i++ {
		switch {
		case r.Chance(1, 6):
			sb.WriteString(Pick(r, c09Core))
		case r.Chance(1, 20):
			sb.WriteRune(rune(r.Intn(0x11000)))
		case r.Chance(1, 30):
			sb.WriteByte(byte(r.Intn(256)))
		default:
			sb.WriteString(Pick(r, c09Pieces))
		}
	}
	return sb.String()
}

func c09Env(s string) string {
	seen := map[rune]bool{0xFFFD: true}
	for _, r := range s {
		seen[r] = true
	}
	rs := make([]int, 0, len(seen))
	for r := range seen {
		rs = append(rs, int(r))
	}
	sort.Ints(rs)
	var sb strings.Builder
	for i, r := range rs {
		if i > 0 {
			sb.WriteByte(',')
		}
		fl := 0
		if strconv.IsPrint(rune(r)) {
			fl |= 1
		}
		if strconv.IsGraphic(rune(r)) {
			fl |= 2
		}
		fmt.Fprintf(&sb, "%d:%d", r, fl)
	}
	return sb.String()
}

func c09ErrKind(err error) string {
	if err == nil {
		return "ok"
	}
	m := err.Error()
	switch {
	case m == "invalid syntax":
		return "syntax"
	case strings.Contains(m, "opening quote of multiline string must be followed by newline"):
		return "opening-newline"
	case strings.Contains(m, "closing quote of multiline string must follow a newline"):
		return "closing-newline"
	case strings.Contains(m, "unmatched quote"):
		return "unmatched"
	case strings.Contains(m, "unmatched surrogate pair"):
		return "surrogate"
	case strings.Contains(m, "invalid UTF-8 encoding"):
		return "utf8"
	case strings.Contains(m, "last newline of multiline string cannot be escaped"):
		return "escaped-last-newline"
	case strings.Contains(m, "non-matching whitespace"):
		return "whitespace"
	}
	return "other:" + m
}

func c09Unquote(lit string) (res string, ans string) {
	defer func() {
		if e := recover(); e != nil {
			res, ans = "", "err panic"
		}
	}()
	v, err := literal.Unquote(lit)
	if err != nil {
		return "", "err " + c09ErrKind(err)
	}
	return v, "ok " + H(v)
}

func c09Quote(f literal.Form, s string) (out string, panicked bool) {
	defer func() {
		if e := recover(); e != nil {
			out, panicked = "", true
		}
	}()
	return f.Quote(s), false
}

// scanOne scans src and reports the first token, its literal, whether the whole input was
// exactly that one token (followed only by the automatic comma / EOF) and the error count.
func c09ScanOne(src string) (tok token.Token, lit string, whole bool, nerr int, panicked bool) {
	defer func() {
		if e := recover(); e != nil {
			panicked = true
		}
	}()
	b := []byte(src)
	f := token.NewFile("c09", -1, len(b))
	var s scanner.Scanner
	s.Init(f, b, func(pos token.Pos, msg string, args []interface{}) { nerr++ }, 0)
	p1, tok, lit := s.Scan()
	_ = p1
	p2, t2, l2 := s.Scan()
	if t2 == token.COMMA && l2 == "\n" {
		p2, t2, _ = s.Scan()
	}
	whole = t2 == token.EOF && p1.Offset() == 0 && p2.Offset() == len(b)
	return
}

func c09QuoteCase(c *Cfg, fm c09Form, s string, seenLit *sync.Map) {
	if !fm.byt && !utf8.ValidString(s) {
		// String/Label quoting of invalid UTF-8 is documented as lossy (U+FFFD); the
		// model is still compared, the round trip is not demanded.
		c.Count("quote/string-invalid-utf8")
	}
	out, pan := c09Quote(fm.f, s)
	if pan {
		c.Direct(false, "quote-panic", fm.desc+".Quote panics", map[string]string{"form": fm.desc, "s_hex": H(s)})
		return
	}
	app := string(fm.f.Append([]byte("x="), s))
	c.Direct(app == "x="+out, "append-differs", "Form.Append(buf,s) != buf+Quote(s)", map[string]string{"form": fm.desc, "s_hex": H(s)})
	env := c09Env(s)
	c.Op("I", "quote "+fm.code+" "+H(s)+" "+env, H(out))
	if _, dup := seenLit.LoadOrStore(out, true); !dup {
		_, ans := c09Unquote(out)
		c.Op("I", "unquote "+H(out), ans)
	}
	// the property's own predicates
	if fm.byt || utf8.ValidString(s) {
		back, ans := c09Unquote(out)
		ok := strings.HasPrefix(ans, "ok") && back == s
		c.Direct(ok, "roundtrip", "Unquote("+fm.desc+".Quote(s)) != s: quoted="+strconv.QuoteToASCII(out)+" unquote="+ans,
			map[string]string{"form": fm.desc, "s_hex": H(s), "s": strconv.QuoteToASCII(s), "quoted": strconv.QuoteToASCII(out)})
		// the scanner must read the literal as one STRING token
		tok, _, whole, nerr, span := c09ScanOne(out)
		sok := !span && tok == token.STRING && whole && nerr == 0
		c.Direct(sok, "quoted-not-one-string-token", "scanner does not read "+fm.desc+".Quote(s) as one STRING token: "+strconv.QuoteToASCII(out),
			map[string]string{"form": fm.desc, "s_hex": H(s), "quoted": strconv.QuoteToASCII(out)})
	}
	if fm.asc {
		ok := true
		for i := 0; i < len(out); i++ {
			if out[i] >= 0x80 {
				ok = false
			}
		}
		c.Direct(ok, "ascii-only", "WithASCIIOnly output has a non-ASCII byte: "+strconv.QuoteToASCII(out), map[string]string{"form": fm.desc, "s_hex": H(s)})
	}
	nontriv := strings.ContainsAny(s, "\"'\\#\n\r") || !utf8.ValidString(s) || strings.IndexFunc(s, func(r rune) bool { return !strconv.IsPrint(r) }) >= 0
	c.Case("quote "+fm.code+" "+H(s), nontriv)
	switch {
	case fm.ml || (fm.auto && strings.Contains(s, "\n")):
		c.Count("quote/multiline")
	case strings.HasPrefix(out, "#"):
		c.Count("quote/single-hashes")
	default:
		c.Count("quote/single-plain")
	}
}

func c09QuoteStream(c *Cfg, r *Rng) {
	forms := c09Forms(c)
	var seenLit sync.Map
	// (1) exhaustive short strings over the core alphabet, every form
	var exh []string
	maxLen := c.Pick(3, 4)
	alpha := c09Core[:c.Pick(7, 9)]
	var rec func(p string, d int)
	rec = func(p string, d int) {
		exh = append(exh, p)
		if d == 0 {
			return
		}
		for _, a := range alpha {
			rec(p+a, d-1)
		}
	}
	rec("", maxLen)
	// (2) hand-picked boundary strings named in the property's quantifier
	fixed := []string{
		`""x`, `""`, `"""`, `''x`, `''`, `""#`, `"#`, `"##x`, `\#`, `\##"`, `a"`, `a\`, `\`, `"`, `#`, `a"#`, `"""#`, `"""##"`, `x"""`, `'''#`,
		"\n", "\n\n", "a\n", "\na", "a\n\nb", "a\n\n", "\n\na", "a\r\nb", "\r", "a\rb", "a\n\tb", "a\n b", " a\n b", "\ta", "a\n\"\"\"", "a\n\"\"\"#\nb", "\"\"\"\n", "a\\\nb", "a\\",
		"\x00", "a\x00b", "\xff", "\xc0\x80", "\xed\xa0\x80", "\uFFFD", "\u2028", "\ufeff", "\U0010FFFF", "\x7f", "\x1f", "\u0085",
	}
	work := append([]string{}, exh...)
	work = append(work, fixed...)
	for _, s := range work {
		for _, fm := range forms {
			c09QuoteCase(c, fm, s, &seenLit)
		}
	}
	c.Count("quote/exhaustive-strings")
	// (3) random adversarial strings, a sample of forms each (all forms in thorough)
	n := c.Pick(1500, 20000)
	if c.Focus {
		n *= 3
	}
	for i := 0; i < n; i++ {
		rr := r.Sub()
		s := c09GenString(rr)
		k := c.Pick(12, 40)
		for j := 0; j < k; j++ {
			c09QuoteCase(c, forms[rr.Intn(len(forms))], s, &seenLit)
		}
	}
}

// ---- malformed literals --------------------------------------------------------------

var c09LitToks = []string{`"`, `'`, `#`, `\`, "\n", "\r", "\t", " ", "a", "u", "U", "x", "n", "0", "7", "8", "f", "F", "d", "D", "(", ")", "/", `"""`, `'''`, "\x00", "\x80", "é", "\u2028", "\u00a0", "\ufeff", `\u`, `\U`, `\x`, `\ud83d`, `\ude00`, `\udc00`, `\UFFFFFFFF`, `\U0010FFFF`, `\U00110000`, `\377`, `\400`}

func c09UnquoteStream(c *Cfg, r *Rng) {
	seen := map[string]bool{}
	emit := func(lit string) {
		if seen[lit] {
			return
		}
		seen[lit] = true
		_, ans := c09Unquote(lit)
		if ans == "err panic" {
			c.Direct(false, "unquote-panic", "literal.Unquote panics on "+strconv.QuoteToASCII(lit), map[string]string{"lit_hex": H(lit)})
		} else {
			c.Direct(true, "unquote-panic", "", nil)
		}
		c.Op("I", "unquote "+H(lit), ans)
		if strings.HasPrefix(ans, "ok") {
			c.Count("unquote/ok")
		} else {
			c.Count("unquote/" + strings.ReplaceAll(ans, " ", "-"))
		}
		// the scanner and the literal package must agree on which spellings are valid
		tok, slit, whole, nerr, span := c09ScanOne(lit)
		// one STRING token whose text is the whole input (no trailing blanks/comments)
		scanOK := !span && tok == token.STRING && whole && nerr == 0 && (slit == lit || c09IsMultilineLit(lit))
		litOK := strings.HasPrefix(ans, "ok")
		if c09IsMultilineLit(lit) {
			// multi-line literals: CR handling and Unicode white space before the closing
			// delimiter differ between scanner and literal in several ways on the unchanged
			// tree (notes/C09.md); counted, not enforced.
			if scanOK != litOK {
				c.Count("unquote/multiline-scanner-literal-disagree(informational)")
			}
			return
		}
		c.Direct(scanOK == litOK, c09StringDisagreeClass(lit, scanOK, litOK, ans), fmt.Sprintf("scanner accepts %s as one STRING token: %v, literal.Unquote: %s", strconv.QuoteToASCII(lit), scanOK, ans), map[string]string{"lit": strconv.QuoteToASCII(lit), "lit_hex": H(lit)})
		c.Case("unquote "+H(lit), len(lit) > 2)
	}
	fixed := []string{
		``, `"`, `""`, `"""`, `""""`, `#"""#`, `#""#`, `##"#"##`, `#"""x"#`, `#""""#`, "\"\"\"\n\"\"\"", "\"\"\"\n\t\"\"\"", "\"\"\"\r\n\"\"\"", "\"\"\"\n a\n \"\"\"", "\"\"\"\n a\n\"\"\"", "\"\"\"\n\ta\n \"\"\"",
		"\"\"\"\na\\\n\"\"\"", "\"\"\"\na\n\"\"\"x\n\"\"\"", "#\"\"\"\na\n\"\"\"#", "\"\"\"\n\u00a0\"\"\"", "\"\"\"\n\u2028\"\"\"", `"\UFFFFFFFF"`, `"\UFFFFFFFFabc"`, `"\UFFFFFFFE"`, `"\UFFFFFFFD"`, `"\U80000000"`, `"\ud800"`, `"\ud800\udc00"`, `"\ud800x"`, `'\xff'`, `"\xff"`, `'\377'`, `'\400'`, `"a\rb"`, "\"a\\\rb\"", `"\(a)"`, `"\("`, `#"\#("#`,
		"'''\n'''", "'''\n\\\n'''", "\"\"\"\n\\\n\"\"\"", "\"\"\"\n\n\"\"\"", "\"\"\"\n\r\n\"\"\"",
	}
	for _, l := range fixed {
		emit(l)
	}
	n := c.Pick(12000, 250000)
	for i := 0; i < n; i++ {
		rr := r.Sub()
		var sb strings.Builder
		// mostly well-delimited: opener, body tokens, closer; sometimes raw soup
		h := 0
		if rr.Chance(1, 3) {
			h = 1 + rr.Intn(2)
		}
		q := Pick(rr, []string{`"`, `'`})
		ml := rr.Chance(1, 3)
		soup := rr.Chance(1, 6)
		ws := Pick(rr, []string{"", "\t", " ", "\t\t", " \t"})
		if !soup {
			sb.WriteString(strings.Repeat("#", h))
			if ml {
				sb.WriteString(q + q + q + Pick(rr, []string{"\n", "\n", "\n", "\r\n", ""}))
				sb.WriteString(ws)
			} else {
				sb.WriteString(q)
			}
		}
		k := rr.Intn(7)
		for j := 0; j < k; j++ {
			t := Pick(rr, c09LitToks)
			sb.WriteString(t)
			if t == "\n" && ml && rr.Chance(3, 4) {
				sb.WriteString(ws)
			}
		}
		if !soup {
			if ml {
				sb.WriteString(Pick(rr, []string{"\n", "\n", "\n", "\r\n", ""}) + ws + q + q + q)
			} else {
				sb.WriteString(q)
			}
			hh := h
			if rr.Chance(1, 10) {
				hh = rr.Intn(3)
			}
			sb.WriteString(strings.Repeat("#", hh))
		}
		emit(sb.String())
	}
}

// narrow syntactic classes of the scanner/literal disagreements known on the unchanged tree
func c09StringDisagreeClass(lit string, scanOK, litOK bool, ans string) string {
	switch {
	case strings.Contains(lit, "\ufeff") && !scanOK && litOK:
		return "string-raw-bom"
	case scanOK && ans == "err surrogate":
		return "string-lone-surrogate-escape"
	}
	return "string-spelling-disagree"
}

func c09IsMultilineLit(lit string) bool {
	t := strings.TrimLeft(lit, "#")
	return strings.HasPrefix(t, `"""`) || strings.HasPrefix(t, "'''")
}

// ---- utf8 table ----------------------------------------------------------------------

func c09Utf8Stream(c *Cfg, r *Rng) {
	emit := func(b string) {
		r1, w1 := utf8.DecodeRuneInString(b)
		r2, w2 := utf8.DecodeLastRuneInString(b)
		c.Op("I", "decode "+H(b), fmt.Sprintf("%d %d %d %d", r1, w1, r2, w2))
	}
	lead := []byte{0x00, 0x41, 0x7f, 0x80, 0xbf, 0xc0, 0xc1, 0xc2, 0xdf, 0xe0, 0xe1, 0xec, 0xed, 0xee, 0xef, 0xf0, 0xf1, 0xf3, 0xf4, 0xf5, 0xff}
	cont := []byte{0x00, 0x7f, 0x80, 0x8f, 0x90, 0x9f, 0xa0, 0xbf, 0xc0, 0xff}
	for _, a := range lead {
		emit(string([]byte{a}))
		for _, b := range cont {
			emit(string([]byte{a, b}))
			for _, d := range cont {
				emit(string([]byte{a, b, d}))
				for _, e := range cont {
					emit(string([]byte{a, b, d, e}))
				}
			}
		}
	}
	n := c.Pick(3000, 40000)
	for i := 0; i < n; i++ {
		k := 1 + r.Intn(6)
		b := make([]byte, k)
		for j := range b {
			if r.Chance(1, 2) {
				b[j] = Pick(r, cont)
			} else {
				b[j] = byte(r.Intn(256))
			}
		}
		emit(string(b))
	}
	runes := []rune{0, 0x7f, 0x80, 0x7ff, 0x800, 0xd7ff, 0xd800, 0xdfff, 0xe000, 0xfffd, 0xffff, 0x10000, 0x10ffff, 0x110000, 0x7fffffff}
	for i := 0; i < c.Pick(500, 5000); i++ {
		runes = append(runes, rune(r.Intn(0x112000)))
	}
	for _, x := range runes {
		c.Op("I", fmt.Sprintf("encode %d", x), H(string(utf8.AppendRune(nil, x))))
	}
	for x := rune(0); x < 0x3100; x++ {
		c.Op("I", fmt.Sprintf("isspace %d", x), fmt.Sprint(unicode.IsSpace(x)))
	}
	c.Count("utf8/table")
}

// ---- parser totality and positions ---------------------------------------------------

type c09PosFail struct{ class, what string }

// wellPositioned walks the tree: every node's Pos/End lies within [0,size], Pos <= End,
// children lie within their parent, and siblings (children of one parent in walk order)
// do not start before the previous sibling starts.  Comments are attached to nodes they
// precede or follow and are only checked for lying within the input.  Returns the first
// failure of each class.
func c09WellPositioned(root ast.Node, size int) (fails []c09PosFail, nodes int, rawOver int) {
	type frame struct {
		n        ast.Node
		lo, hi   int
		lastKid  int
		hasRange bool
	}
	var stack []frame
	seen := map[string]bool{}
	bad := func(class, format string, a ...any) {
		if !seen[class] {
			seen[class] = true
			fails = append(fails, c09PosFail{class, fmt.Sprintf(format, a...)})
		}
	}
	rng := func(n ast.Node) (lo, hi int, ok bool) {
		p, e := n.Pos(), n.End()
		if !p.IsValid() || !e.IsValid() {
			return 0, 0, false
		}
		return p.Offset(), e.Offset(), true
	}
	ast.Walk(root, func(n ast.Node) bool {
		nodes++
		lo, hi, ok := rng(n)
		_, isComment := n.(*ast.Comment)
		_, isCG := n.(*ast.CommentGroup)
		if ok {
			if lo < 0 || hi > size || lo > hi {
				bad("node-outside-input", "%T at [%d,%d) outside input of %d bytes", n, lo, hi, size)
			}
			// token.Pos.Offset clamps to [0,size], so a raw position past EOF is not observable
			// through the public accessors.  The raw overshoot (recovered by shifting the
			// position back by the file size first) is one byte on the unchanged tree for
			// placeholders at EOF (e.g. the missing selector of `aa.`); counted, not enforced.
			if size > 0 && n.End().Add(-size).Offset() > 0 {
				rawOver++
			}
			if !isComment && !isCG {
				// nearest enclosing non-comment frame with a range
				for i := len(stack) - 1; i >= 0; i-- {
					fr := &stack[i]
					if _, c1 := fr.n.(*ast.CommentGroup); c1 {
						break
					}
					if !fr.hasRange {
						continue
					}
					if lo < fr.lo || hi > fr.hi {
						bad("node-position", "%T [%d,%d) not within parent %T [%d,%d)", n, lo, hi, fr.n, fr.lo, fr.hi)
					}
					break
				}
				if len(stack) > 0 {
					fr := &stack[len(stack)-1]
					if _, c1 := fr.n.(*ast.CommentGroup); !c1 {
						if lo < fr.lastKid {
							bad("sibling-order", "%T at %d starts before the end %d of its previous sibling (parent %T)", n, lo, fr.lastKid, fr.n)
						}
						fr.lastKid = hi
					}
				}
			}
		}
		stack = append(stack, frame{n: n, lo: lo, hi: hi, hasRange: ok && !isComment && !isCG})
		return true
	}, func(n ast.Node) {
		stack = stack[:len(stack)-1]
	})
	return fails, nodes, rawOver
}

type c09ParseResult struct {
	fails   []c09PosFail
	nodes   int
	nerrs   int
	rawOver int
	timeout bool
}

func c09ParseOnce(src []byte, expr bool, comments bool) (res c09ParseResult) {
	done := make(chan c09ParseResult, 1)
	go func() {
		var r c09ParseResult
		add := func(class, what string) { r.fails = append(r.fails, c09PosFail{class, what}) }
		defer func() {
			if e := recover(); e != nil {
				add("parser-panic", fmt.Sprintf("panic: %v", e))
			}
			done <- r
		}()
		var opts []parser.Option
		if comments {
			opts = append(opts, parser.ParseComments)
		}
		opts = append(opts, parser.AllErrors)
		var root ast.Node
		var err error
		if expr {
			var e ast.Expr
			e, err = parser.ParseExpr("c09.cue", src, opts...)
			if e != nil {
				root = e
			}
		} else {
			var f *ast.File
			f, err = parser.ParseFile("c09.cue", src, opts...)
			if f != nil {
				root = f
			}
		}
		if err == nil && root == nil {
			add("parser-no-result", "the parser returned neither a tree nor an error")
		}
		seenE := map[string]bool{}
		for _, e := range errors.Errors(err) {
			r.nerrs++
			p := e.Position()
			if !p.IsValid() {
				if !seenE["u"] {
					seenE["u"] = true
					add("error-unpositioned", "error without a position: "+e.Error())
				}
				continue
			}
			if o := p.Offset(); (o < 0 || o > len(src)) && !seenE["p"] {
				seenE["p"] = true
				add("error-position", fmt.Sprintf("error position %d outside input of %d bytes: %v", o, len(src), e))
			}
		}
		if root != nil {
			f, n, ro := c09WellPositioned(root, len(src))
			r.nodes = n
			r.rawOver = ro
			r.fails = append(r.fails, f...)
		}
	}()
	select {
	case r := <-done:
		return r
	case <-time.After(20 * time.Second):
		return c09ParseResult{fails: []c09PosFail{{"parser-hang", "parser did not terminate within 20s"}}, timeout: true}
	}
}

func c09ParseCase(c *Cfg, src []byte, origin string) {
	for _, mode := range []struct {
		expr, comments bool
		name           string
	}{{false, false, "ParseFile"}, {false, true, "ParseFile+ParseComments"}, {true, false, "ParseExpr"}} {
		r := c09ParseOnce(src, mode.expr, mode.comments)
		if len(r.fails) == 0 {
			c.Direct(true, "", "", nil)
		}
		for _, f := range r.fails {
			c.Direct(false, f.class, mode.name+": "+f.what+" ["+origin+"]", map[string]string{"src_hex": H(string(src)), "src": strconv.QuoteToASCII(string(src)), "mode": mode.name, "origin": origin})
		}
		if r.rawOver > 0 {
			c.Count("parser/raw-end-past-eof-clamped-by-Offset(informational)")
		}
		if r.nerrs > 0 {
			c.Count("parser/" + mode.name + "/with-errors")
		} else {
			c.Count("parser/" + mode.name + "/clean")
		}
		c.Count("parser/nodes-checked-" + mode.name + "-" + strconv.Itoa(min(r.nodes/100*100, 1000)) + "+")
	}
	c.Case("parse "+H(string(src)), len(src) > 0)
}

var (
	c09CorpusOnce  sync.Once
	c09CorpusFiles [][]byte
)

func c09Corpus(c *Cfg) [][]byte {
	c09CorpusOnce.Do(func() { c09CorpusFiles = c09CorpusLoad(c) })
	return c09CorpusFiles
}

func c09CorpusLoad(c *Cfg) [][]byte {
	repo := os.Getenv("VERIF_REPO")
	if repo == "" {
		repo = "/repo"
	}
	var files [][]byte
	var paths []string
	filepath.WalkDir(repo, func(p string, d os.DirEntry, err error) error {
		if err != nil {
			return nil
		}
		if d.IsDir() {
			if n := d.Name(); n == ".git" || n == "node_modules" {
				return filepath.SkipDir
			}
			return nil
		}
		if strings.HasSuffix(p, ".cue") || strings.HasSuffix(p, ".txtar") {
			paths = append(paths, p)
		}
		return nil
	})
	sort.Strings(paths)
	for _, p := range paths {
		b, err := os.ReadFile(p)
		if err != nil {
			continue
		}
		if strings.HasSuffix(p, ".cue") {
			files = append(files, b)
			continue
		}
		ar := txtar.Parse(b)
		for _, f := range ar.Files {
			if strings.HasSuffix(f.Name, ".cue") && len(f.Data) > 0 {
				files = append(files, f.Data)
			}
		}
	}
	return files
}

var c09SoupToks = []string{
	"import (\n\t\"a\"\n\t\"b\"\n", "import (\n\t\"a\"\n\tx \"b\"", "import \"a\"\n",
	"a", "b", "_", "#D", "_#x", "foo", "if", "for", "in", "let", "import", "package", "true", "false", "null", "_|_", "1", "0", "1.5", "0x1F", "1e3", "2Ki", ".5", "1..", "0b102", "1_0",
	`"s"`, `'b'`, `"\(`, `)"`, `"a\(x)b"`, `#"r"#`, "\"\"\"\n\ta\n\t\"\"\"", `"`, `'`, `"""`, "`",
	"{", "}", "[", "]", "(", ")", ":", ",", ";", ".", "..", "...", "?", "!", "=", "==", "!=", "<", "<=", ">", ">=", "<-", "=~", "!~", "&", "|", "&&", "||", "+", "-", "*", "/", "~", "@a(b)", "@", "//c\n", "/", " ", "\n", "\t", "\r\n", "\\", "$", "#", "%", "^", "\x00", "\x80", "\ufeff", "é", "div", "mod", "quo", "rem", "X=", "[string]:", "[...]", "if x {", "for k, v in y {", "let x = ", "a.b", "a[0]", "a[1:2]", "f(x)", "*1 | 2", "x: y: z",
}

func c09ParserStream(c *Cfg, r *Rng) {
	corpus := c09Corpus(c)
	c.Count("parser/corpus-files")
	var mu sync.Mutex
	_ = mu
	type job struct {
		src    []byte
		origin string
	}
	jobs := make(chan job, 256)
	var wg sync.WaitGroup
	for w := 0; w < 16; w++ {
		wg.Add(1)
		go func() {
			defer wg.Done()
			for j := range jobs {
				c09ParseCase(c, j.src, j.origin)
			}
		}()
	}
	// (1) corpus as is (all in thorough, a seeded sample in quick)
	nCorpus := c.Pick(600, len(corpus))
	idx := make([]int, len(corpus))
	for i := range idx {
		idx[i] = i
	}
	Shuffle(r, idx)
	if nCorpus > len(idx) {
		nCorpus = len(idx)
	}
	for _, i := range idx[:nCorpus] {
		jobs <- job{corpus[i], "corpus"}
	}
	// (2) byte-level mutations of corpus files (prefixes, deletions, insertions, swaps)
	nMut := c.Pick(4000, 120000)
	if c.Focus {
		nMut *= 2
	}
	special := []string{"\"", "'", "\\", "#", "(", ")", "{", "}", "[", "]", "\n", "\"\"\"", "\\(", ":", ",", "\x00", "\x80", "\xff", "\ufeff", "//", "...", "?", "!", "=", "<", "|", "&", "_|_", "if ", "for ", "let ", "import ", "package ", "1e", "0x", ".", "@"}
	for i := 0; i < nMut && len(corpus) > 0; i++ {
		rr := r.Sub()
		src := corpus[rr.Intn(len(corpus))]
		if len(src) > 3000 {
			o := rr.Intn(len(src) - 3000)
			src = src[o : o+3000]
		}
		b := append([]byte{}, src...)
		nm := 1 + rr.Intn(3)
		for k := 0; k < nm && len(b) > 0; k++ {
			p := rr.Intn(len(b))
			switch rr.Intn(7) {
			case 0: // truncate
				b = b[:p]
			case 1: // delete a span
				q := p + rr.Intn(8)
				if q > len(b) {
					q = len(b)
				}
				b = append(b[:p:p], b[q:]...)
			case 2: // insert a special token
				t := Pick(rr, special)
				b = append(b[:p:p], append([]byte(t), b[p:]...)...)
			case 3: // replace a byte
				b[p] = byte(rr.Intn(256))
			case 4: // duplicate a span
				q := p + rr.Intn(12)
				if q > len(b) {
					q = len(b)
				}
				b = append(b[:q:q], append(append([]byte{}, b[p:q]...), b[q:]...)...)
			case 5: // drop a suffix start (keep tail)
				b = b[p:]
			case 6: // swap two bytes
				q := rr.Intn(len(b))
				b[p], b[q] = b[q], b[p]
			}
		}
		jobs <- job{b, "mutation"}
	}
	// (3) token soups
	nSoup := c.Pick(6000, 200000)
	if c.Focus {
		nSoup *= 2
	}
	for i := 0; i < nSoup; i++ {
		rr := r.Sub()
		var sb bytes.Buffer
		k := 1 + rr.Intn(14)
		for j := 0; j < k; j++ {
			sb.WriteString(Pick(rr, c09SoupToks))
			if rr.Chance(1, 3) {
				sb.WriteByte(' ')
			}
		}
		jobs <- job{sb.Bytes(), "soup"}
	}
	// (4) exhaustive short soups over a small token set
	small := []string{"a", ":", "{", "}", "[", "]", "(", ")", ",", "\"", "\\(", "1", ".", "|", "\n", "if", "for", "?", "=", "..."}
	var rec func(p string, d int)
	depth := c.Pick(3, 4)
	rec = func(p string, d int) {
		jobs <- job{[]byte(p), "exhaustive-soup"}
		if d == 0 {
			return
		}
		for _, t := range small {
			rec(p+t, d-1)
		}
	}
	rec("", depth)
	close(jobs)
	wg.Wait()
}

func runC09(c *Cfg) {
	r := NewRng(c.Seed)
	// development aid: VERIF_C09_ONLY=token|scan runs one extension stream alone
	switch os.Getenv("VERIF_C09_ONLY") {
	case "token":
		c09TokenStream(c, r.Sub())
		return
	case "scan":
		c09ScanStreamRun(c, r.Sub())
		return
	}
	c09QuoteStream(c, r.Sub())
	c09UnquoteStream(c, r.Sub())
	if !c.Focus {
		c09Utf8Stream(c, r.Sub())
	}
	c09NumIdentStream(c, r.Sub())
	c09ParserStream(c, r.Sub())
	// extension round (session 3); after the older streams so that their random streams
	// (and the recorded evidence) are unchanged
	c09TokenStream(c, r.Sub())
	c09ScanStreamRun(c, r.Sub())
}

// ---- numbers and identifiers ---------------------------------------------------------

func c09Kind(tok token.Token) string {
	switch tok {
	case token.INT:
		return "int"
	case token.FLOAT:
		return "float"
	}
	return "no"
}

// scanner: s is exactly one INT/FLOAT token, no errors
func c09ScanNum(s string) string {
	tok, lit, whole, nerr, pan := c09ScanOne(s)
	if pan {
		return "panic"
	}
	if (tok == token.INT || tok == token.FLOAT) && whole && nerr == 0 && lit == s {
		return c09Kind(tok)
	}
	return "no"
}

// literal.ParseNum: accepted as int / float.  The value-level rejection "number cannot be
// represented as int" (e.g. 1.0005K) is not a spelling matter: counted as accepted int.
func c09LitNum(s string) (kind string, semantic bool) {
	defer func() {
		if e := recover(); e != nil {
			kind = "panic"
		}
	}()
	var ni literal.NumInfo
	err := literal.ParseNum(s, &ni)
	if err != nil {
		if strings.Contains(err.Error(), "cannot be represented as int") {
			// value-level rejection (the multiplier does not make the fraction integral).
			// It is returned before a pending lexical error (p.err) would be, so decide the
			// lexical verdict on the same spelling with every fraction digit replaced by
			// '0' (all decimal digits are equivalent for scanMantissa(10); the value is
			// then integral).
			if i := strings.IndexByte(s, '.'); i >= 0 {
				b := []byte(s)
				for j := i + 1; j < len(b); j++ {
					if b[j] >= '1' && b[j] <= '9' {
						b[j] = '0'
					}
				}
				var n2 literal.NumInfo
				if err2 := literal.ParseNum(string(b), &n2); err2 != nil && !strings.Contains(err2.Error(), "cannot be represented as int") {
					return "no", true
				}
			}
			return "int", true
		}
		return "no", false
	}
	if ni.IsInt() {
		return "int", false
	}
	return "float", false
}

func c09ParserNum(s string) string {
	var res string
	func() {
		defer func() {
			if e := recover(); e != nil {
				res = "panic"
			}
		}()
		e, err := parser.ParseExpr("n.cue", s)
		if err != nil {
			res = "no"
			return
		}
		if b, ok := e.(*ast.BasicLit); ok && b.Value == s {
			res = c09Kind(b.Kind)
			return
		}
		res = "no"
	}()
	return res
}

func c09NumCase(c *Cfg, s string, withParser bool) {
	sc := c09ScanNum(s)
	li, sem := c09LitNum(s)
	if sem {
		c.Count("num/literal-value-reject-counted-as-int")
	}
	c.Op("I", "num "+H(s), sc+" "+li)
	signed := strings.HasPrefix(s, "+") || strings.HasPrefix(s, "-")
	if signed {
		c.Count("num/signed-skipped")
	} else {
		class := "number-spelling-disagree"
		t := s
		if sc == "no" && li != "no" && (strings.HasPrefix(t, "_") || strings.HasPrefix(t, "._")) {
			class = "parsenum-leading-underscore"
		}
		if sc == "no" && li != "no" && strings.HasPrefix(t, "0_") {
			class = "parsenum-zero-underscore"
		}
		c.Direct(sc == li, class, fmt.Sprintf("scanner says %s, literal.ParseNum says %s for %q", sc, li, s), map[string]string{"s": strconv.QuoteToASCII(s), "s_hex": H(s)})
		if withParser {
			pk := c09ParserNum(s)
			c.Direct(pk == sc, "number-parser-scanner-disagree", fmt.Sprintf("parser says %s, scanner says %s for %q", pk, sc, s), map[string]string{"s": strconv.QuoteToASCII(s)})
		}
	}
	c.Case("num "+H(s), sc != "no" || li != "no")
	c.Count("num/scanner-" + sc)
}

func c09IdentClasses(s string) string {
	seen := map[rune]bool{}
	var rs []int
	for _, r := range s {
		if r >= 0x80 && !seen[r] {
			seen[r] = true
			rs = append(rs, int(r))
		}
	}
	if len(rs) == 0 {
		return "-"
	}
	sort.Ints(rs)
	var sb strings.Builder
	for i, r := range rs {
		if i > 0 {
			sb.WriteByte(',')
		}
		fl := 0
		if unicode.IsLetter(rune(r)) {
			fl |= 1
		}
		if unicode.IsDigit(rune(r)) {
			fl |= 2
		}
		fmt.Fprintf(&sb, "%d:%d", r, fl)
	}
	return sb.String()
}

func c09IdentCase(c *Cfg, s string) {
	tok, lit, whole, nerr, pan := c09ScanOne(s)
	sc := !pan && (tok == token.IDENT || tok.IsKeyword()) && whole && nerr == 0 && lit == s
	va := ast.IsValidIdent(s)
	c.Op("I", "ident "+H(s)+" "+c09IdentClasses(s), fmt.Sprint(sc)+" "+fmt.Sprint(va))
	c.Direct(sc == va, "ident-spelling-disagree", fmt.Sprintf("scanner lexes %q as one identifier: %v, ast.IsValidIdent: %v", s, sc, va), map[string]string{"s": strconv.QuoteToASCII(s), "s_hex": H(s)})
	c.Case("ident "+H(s), sc || va)
	c.Count("ident/valid-" + fmt.Sprint(va))
}

func c09NumIdentStream(c *Cfg, r *Rng) {
	// numbers: exhaustive over a 20-symbol alphabet
	alpha := []string{"0", "1", "7", "8", "9", "a", "b", "e", "E", "f", "o", "x", "X", "_", ".", "+", "-", "K", "M", "i"}
	depth := c.Pick(4, 5)
	var rec func(p string, d int)
	rec = func(p string, d int) {
		if p != "" {
			c09NumCase(c, p, len(p) <= 3)
		}
		if d == 0 {
			return
		}
		for _, a := range alpha {
			rec(p+a, d-1)
		}
	}
	rec("", depth)
	fixed := []string{"0", "00", "01", "09", "0.", "00.5", "0e1", "0E", "0K", "0Ki", "0Kii", "-0K", "+0K", "-0Ki", "-0.K", "-0.Ki", "-0.Mi", "-0.0K", "-00.5K", "-.5K", "1e100001", "1e-100001", "1E999999999", "1K", "1Ki", "1.5K", "1.0005K", ".1_Ki", ".1Ki\x00", "1.5_Ki", "1._5Ki", ".5", ".5K", "._5", "_1", "1_", "1__2", "1_000", "0x", "0x_", "0x_1", "0X1f", "0b", "0b2", "0b102", "0o8", "0o17", "0B1", "0O1", "1e", "1e+", "1e_5", "1e5K", "1.", "1..", "1.2.3", "1._5", "1.e5", "1\x00", "1é", "\x00", "1P", "1Pi", "1E", "1Z", "1Y", "123456789012345678901234567890123456789K", "1Ti", "9G", "0.0", "0_1", "0_", "0_.5", "1 ", " 1", "1\n"}
	for _, s := range fixed {
		c09NumCase(c, s, true)
	}
	toks := []string{"0", "1", "9", "12", "00", "_", "__", ".", "..", "e", "E", "e+", "e-", "x", "X", "b", "o", "0x", "0b", "0o", "K", "M", "G", "T", "P", "Ki", "i", "a", "f", "F", "A", "8", "7", "2", "\x00", "é", "+", "-", " "}
	n := c.Pick(20000, 400000)
	for i := 0; i < n; i++ {
		var sb strings.Builder
		k := 1 + r.Intn(7)
		for j := 0; j < k; j++ {
			sb.WriteString(Pick(r, toks))
		}
		c09NumCase(c, sb.String(), i%8 == 0)
	}
	// identifiers: exhaustive over a small alphabet + random
	ia := []string{"a", "Z", "0", "9", "_", "#", "$", "\"", "'", "|", "é", "٣", "-", ".", " ", "̀"}
	idepth := c.Pick(4, 5)
	var reci func(p string, d int)
	reci = func(p string, d int) {
		if p != "" {
			c09IdentCase(c, p)
		}
		if d == 0 {
			return
		}
		for _, a := range ia {
			reci(p+a, d-1)
		}
	}
	reci("", idepth)
	ifixed := []string{"", "_", "__", "_#", "_#a", "_#0", "__#x", "#", "#a", "#0", "##", "_0", "$", "$0", "a#", "_|_", "_|", "if", "for", "in", "let", "true", "false", "null", "import", "package", "func", "div", "\ufeffa", "a\ufeff", "a\xffb", "\xff", "a\x00", "é", "٣", "_٣", "a٣", "#é", "_é", "本", "a.b", "a b", "a\n"}
	for _, s := range ifixed {
		c09IdentCase(c, s)
	}
	itoks := []string{"a", "b", "Z", "0", "1", "_", "__", "#", "_#", "$", "é", "٣", "本", "̀", "if", "for", "let", "in", "\ufeff", "\xff", "\x00", "|", "-", "\"", "'"}
	ni := c.Pick(10000, 200000)
	for i := 0; i < ni; i++ {
		var sb strings.Builder
		k := 1 + r.Intn(5)
		for j := 0; j < k; j++ {
			sb.WriteString(Pick(r, itoks))
		}
		c09IdentCase(c, sb.String())
	}
}
