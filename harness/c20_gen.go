package main

// C20 — generated packages: schemas (definitions, pattern constraints, defaults,
// comprehensions, embedded disjunctions, let, references, lists, embeddings) coexisting with
// data that PARTLY repeats what they imply, split over 1–3 files.

import (
	"fmt"
	"strings"
)

// a leaf schema with the data values that relate to it
type c20leaf struct {
	schema   string
	same     string   // the value the schema implies once defaults are taken ("" = none)
	other    []string // admissible values different from `same`
	conflict string   // inadmissible
	kind     string
}

var c20leaves = []c20leaf{
	{"1", "1", nil, "2", "concrete"},
	{`"a"`, `"a"`, nil, `"b"`, "concrete"},
	{"true", "true", nil, "false", "concrete"},
	{"*1 | int", "1", []string{"2", "0"}, `"s"`, "default"},
	{`*"a" | string`, `"a"`, []string{`"b"`}, "1", "default"},
	{"int | *2", "2", []string{"3"}, `"s"`, "default"},
	{`*"x" | "y" | "z"`, `"x"`, []string{`"y"`}, `"q"`, "default"},
	{"*1 | *2 | int", "", []string{"1", "2", "5"}, `"s"`, "default2"},
	{"int", "", []string{"1", "7"}, `"s"`, "type"},
	{"string", "", []string{`"a"`, `"hello"`}, "1", "type"},
	{"number", "", []string{"1", "1.5"}, `"s"`, "type"},
	{">=0 & <=10", "", []string{"3", "10"}, "11", "bound"},
	{"int & >0", "", []string{"1", "4"}, "0", "bound"},
	{"1 | 2", "", []string{"1", "2"}, "3", "disj"},
	{`"a" | "b"`, "", []string{`"a"`, `"b"`}, `"c"`, "disj"},
	{"6 | string", "", []string{"6", `"s"`}, "7", "disj"},
	{"*null | int", "null", []string{"4"}, `"s"`, "default"},
	{"_", "", []string{"1", `"a"`, "{}"}, "", "top"},
	{`=~"^a"`, "", []string{`"ab"`}, `"b"`, "bound"},
	{"bool | *false", "false", []string{"true"}, "1", "default"},
}

type c20field struct {
	name string
	leaf *c20leaf
	sub  []c20field // nested struct when leaf == nil
	opt  string     // "", "?" or "!"
	ref  bool       // value is a reference to the preceding sibling: no data generated
}

type c20gen struct {
	r      *Rng
	c      *Cfg
	decls  []c20decl
	nfiles int
	uid    int
	feats  map[string]bool
	defs   map[string][]c20field // definitions generated so far
	errOK  bool                  // allow conflicting data
}

type c20decl struct {
	text string
	file int // -1 = any
}

func (g *c20gen) feat(f string) { g.feats[f] = true }

func (g *c20gen) id(prefix string) string {
	g.uid++
	return fmt.Sprintf("%s%d", prefix, g.uid)
}

func (g *c20gen) add(text string) { g.decls = append(g.decls, c20decl{text, -1}) }

func (g *c20gen) addIn(file int, text string) { g.decls = append(g.decls, c20decl{text, file}) }

func (g *c20gen) fields(depth int) []c20field {
	n := 1 + g.r.Intn(4)
	names := []string{"a", "b", "c", "d", "e"}
	Shuffle(g.r, names)
	var fs []c20field
	for i := 0; i < n; i++ {
		f := c20field{name: names[i]}
		if depth > 0 && g.r.Chance(1, 5) {
			f.sub = g.fields(depth - 1)
		} else {
			f.leaf = &c20leaves[g.r.Intn(len(c20leaves))]
			g.feat("leaf-" + f.leaf.kind)
		}
		if g.r.Chance(1, 8) {
			f.opt = Pick(g.r, []string{"?", "?", "!"})
			g.feat("field" + f.opt)
		} else if i > 0 && f.leaf != nil && fs[i-1].leaf != nil && fs[i-1].opt == "" && g.r.Chance(1, 7) {
			f.ref = true
		}
		fs = append(fs, f)
	}
	return fs
}

// schemaText renders a field list as struct body; withRefs adds sibling references.
func (g *c20gen) schemaText(fs []c20field) string {
	var parts []string
	for i, f := range fs {
		if f.leaf != nil {
			v := f.leaf.schema
			if f.ref && i > 0 {
				g.feat("sibling-ref")
				parts = append(parts, fmt.Sprintf("%s: %s", f.name, fs[i-1].name))
				continue
			}
			parts = append(parts, fmt.Sprintf("%s%s: %s", f.name, f.opt, v))
		} else {
			parts = append(parts, fmt.Sprintf("%s%s: {%s}", f.name, f.opt, g.schemaText(f.sub)))
		}
	}
	return strings.Join(parts, ", ")
}

// dataText renders data for the fields: per field omit / same / other / conflict.
// mode biases: "repeat" mostly same, "mixed".
func (g *c20gen) dataText(fs []c20field) string {
	return strings.Join(g.dataParts(fs), ", ")
}

func (g *c20gen) dataParts(fs []c20field) []string {
	var parts []string
	for _, f := range fs {
		if f.ref {
			continue
		}
		if f.leaf == nil {
			if g.r.Chance(2, 3) {
				parts = append(parts, fmt.Sprintf("%s: {%s}", f.name, g.dataText(f.sub)))
			}
			continue
		}
		l := f.leaf
		switch k := g.r.Intn(20); {
		case k < 4 && f.opt != "!":
			// omit
		case k < 11 && l.same != "":
			parts = append(parts, fmt.Sprintf("%s: %s", f.name, l.same))
			g.feat("data-same")
		case k < 19 && len(l.other) > 0:
			parts = append(parts, fmt.Sprintf("%s: %s", f.name, Pick(g.r, l.other)))
			g.feat("data-other")
		case k == 19 && g.errOK && l.conflict != "":
			parts = append(parts, fmt.Sprintf("%s: %s", f.name, l.conflict))
			g.feat("data-conflict")
		case l.same != "":
			parts = append(parts, fmt.Sprintf("%s: %s", f.name, l.same))
		case len(l.other) > 0:
			parts = append(parts, fmt.Sprintf("%s: %s", f.name, l.other[0]))
		}
	}
	return parts
}

// firstConcrete returns a field (top level, leaf) and a concrete value usable in
// expressions, or "".
func c20numField(fs []c20field) (string, bool) {
	for _, f := range fs {
		if f.leaf != nil && f.opt == "" && (f.leaf.schema == "*1 | int" || f.leaf.schema == "int | *2" || f.leaf.schema == "1") {
			return f.name, true
		}
	}
	return "", false
}

func (g *c20gen) newDef() (string, []c20field) {
	name := g.id("#D")
	fs := g.fields(2)
	g.defs[name] = fs
	if len(fs) > 1 && g.r.Chance(1, 3) {
		// split schema: several declarations of the same definition
		g.feat("split-def")
		k := 1 + g.r.Intn(len(fs)-1)
		g.add(fmt.Sprintf("%s: {%s}", name, g.schemaText(fs[:k])))
		g.add(fmt.Sprintf("%s: {%s}", name, g.schemaText(fs[k:])))
	} else {
		g.add(fmt.Sprintf("%s: {%s}", name, g.schemaText(fs)))
	}
	g.feat("definition")
	return name, fs
}

func (g *c20gen) someDef() (string, []c20field) {
	if len(g.defs) > 0 && g.r.Chance(1, 2) {
		names := make([]string, 0, len(g.defs))
		for n := range g.defs {
			names = append(names, n)
		}
		// deterministic order
		for i := range names {
			for j := i + 1; j < len(names); j++ {
				if names[j] < names[i] {
					names[i], names[j] = names[j], names[i]
				}
			}
		}
		n := Pick(g.r, names)
		return n, g.defs[n]
	}
	return g.newDef()
}

// ---- units ---------------------------------------------------------------------------

func (g *c20gen) unitDefData() {
	d, fs := g.someDef()
	x := g.id("v")
	switch g.r.Intn(4) {
	case 0:
		g.add(fmt.Sprintf("%s: %s & {%s}", x, d, g.dataText(fs)))
	case 1:
		g.add(fmt.Sprintf("%s: %s", x, d))
		g.add(fmt.Sprintf("%s: {%s}", x, g.dataText(fs)))
	case 2:
		g.add(fmt.Sprintf("%s: %s", x, d))
		for _, part := range g.dataParts(fs) {
			g.add(fmt.Sprintf("%s: %s", x, part))
		}
		g.feat("data-split")
	case 3:
		g.add(fmt.Sprintf("%s: {%s, %s}", x, d, g.dataText(fs)))
		g.feat("embedding")
	}
	if n, ok := c20numField(fs); ok && g.r.Chance(1, 3) {
		// something elsewhere refers into the data
		y := g.id("r")
		g.add(fmt.Sprintf("%s: %s.%s", y, x, n))
		if g.r.Bool() {
			g.add(fmt.Sprintf("%s: %s", y, Pick(g.r, []string{"1", "int", "number", ">=0"})))
		}
		g.feat("ref-into-data")
	}
}

func (g *c20gen) unitPattern() {
	x := g.id("objs")
	var fs []c20field
	aliasForm := false
	switch g.r.Intn(3) {
	case 0:
		var d string
		d, fs = g.someDef()
		g.add(fmt.Sprintf("%s: [string]: %s", x, d))
	case 1:
		fs = g.fields(1)
		g.add(fmt.Sprintf("%s: [Name=string]: {name: Name, %s}", x, g.schemaText(fs)))
		g.feat("pattern-alias")
		aliasForm = true
	case 2:
		fs = g.fields(1)
		g.add(fmt.Sprintf("%s: [=~\"^a\"]: {%s}", x, g.schemaText(fs)))
		g.feat("pattern-regexp")
	}
	g.feat("pattern")
	keys := []string{"ann", "bob", "abe"}
	n := 1 + g.r.Intn(3)
	for i := 0; i < n; i++ {
		k := keys[i]
		d := g.dataText(fs)
		if aliasForm && g.r.Chance(1, 3) {
			d += fmt.Sprintf(", name: %q", k)
		}
		d = strings.TrimPrefix(d, ", ")
		if g.r.Bool() {
			g.add(fmt.Sprintf("%s: %s: {%s}", x, k, d))
		} else {
			g.add(fmt.Sprintf("%s: {%s: {%s}}", x, k, d))
		}
	}
	if g.r.Chance(1, 2) {
		// comprehension over the objects + data repeating part of its output
		y := g.id("out")
		if fn, ok := c20numField(fs); ok {
			g.add(fmt.Sprintf("for k, v in %s {%s: (k): v.%s}", x, y, fn))
			g.add(fmt.Sprintf("%s: %s: %s", y, keys[0], Pick(g.r, []string{"1", "2", "int"})))
		} else {
			g.add(fmt.Sprintf("for k, v in %s {%s: (k): {seen: true}}", x, y))
			g.add(fmt.Sprintf("%s: %s: seen: true", y, keys[0]))
		}
		g.feat("comprehension-for")
	}
	if g.r.Chance(1, 4) {
		// comprehension feeding the pattern's own struct
		d, dfs := g.someDef()
		g.add(fmt.Sprintf("for k, v in %s {%s: (k): %s}", x, x, d))
		_ = dfs
		g.feat("comprehension-self")
	}
}

func (g *c20gen) unitDisjStruct() {
	d := g.id("#U")
	// (forms 2 and 3 embed the disjunction in a struct literal: trim.Files used not to
	// terminate on those when left unresolved, fixed in 343415b)
	form := g.r.Intn(4)
	switch form {
	case 0:
		g.add(fmt.Sprintf(`%s: {kind: "x", vx: int} | {kind: "y", vy: string}`, d))
	case 1:
		g.add(fmt.Sprintf(`%s: *{kind: "x", vx: *1 | int} | {kind: "y", vy: string}`, d))
		g.feat("disj-default-struct")
	case 2:
		g.add(fmt.Sprintf(`%s: {{kind: "x", vx: int} | {kind: "y", vy: string}}`, d))
		g.feat("embedded-disjunction")
	case 3:
		g.add(fmt.Sprintf(`%s: {common: int, {kind: "x", vx: int} | {kind: "y", vy: *"s" | string}}`, d))
		g.feat("embedded-disjunction")
	}
	g.feat("disj-struct")
	x := g.id("u")
	var data []string
	if g.r.Chance(4, 5) {
		data = append(data, fmt.Sprintf("kind: %s", Pick(g.r, []string{`"x"`, `"x"`, `"y"`})))
	}
	if g.r.Bool() {
		data = append(data, Pick(g.r, []string{"vx: 1", "vx: 2", `vy: "s"`, `vy: "t"`}))
	}
	if form == 3 && g.r.Bool() {
		data = append(data, "common: 3")
	}
	switch g.r.Intn(3) {
	case 0:
		g.add(fmt.Sprintf("%s: %s & {%s}", x, d, strings.Join(data, ", ")))
	case 1:
		g.add(fmt.Sprintf("%s: %s", x, d))
		for _, p := range data {
			g.add(fmt.Sprintf("%s: %s", x, p))
		}
	case 2:
		g.add(fmt.Sprintf("%s: %s", x, d))
		g.add(fmt.Sprintf("%s: {%s}", x, strings.Join(data, ", ")))
		if len(data) > 0 && g.r.Bool() {
			g.add(fmt.Sprintf("%s: %s", x, data[0])) // repeated once more
		}
	}
}

func (g *c20gen) unitRevive() {
	dd, o := g.id("dd"), g.id("o")
	switch g.r.Intn(4) {
	case 0:
		g.add(fmt.Sprintf("%s: 6 | string", dd))
		g.add(fmt.Sprintf("%s: %s & int", o, dd))
		g.add(fmt.Sprintf("%s: 6", o))
	case 1:
		c := g.id("c")
		g.add(fmt.Sprintf("%s: %s | string", dd, c))
		g.add(fmt.Sprintf("%s: 6", c))
		g.add(fmt.Sprintf("%s: %s", o, dd))
		g.add(fmt.Sprintf("%s: int", o))
		if g.r.Bool() {
			g.add(fmt.Sprintf("%s: 6", o))
		}
	case 2:
		g.add(fmt.Sprintf("%s: {a: 1} | {b: 2}", dd))
		g.add(fmt.Sprintf("%s: %s", o, dd))
		g.add(fmt.Sprintf("%s: a: 1", o))
		if g.r.Bool() {
			g.add(fmt.Sprintf("%s: a: int", o))
		}
	case 3:
		g.add(fmt.Sprintf("%s: *1 | 2 | 3", dd))
		g.add(fmt.Sprintf("%s: %s", o, dd))
		g.add(fmt.Sprintf("%s: %s", o, Pick(g.r, []string{"1", "2", ">1", "int", "1 | 2"})))
	}
	g.feat("revive-disjunct")
}

func (g *c20gen) unitDup() {
	x := g.id("x")
	vals := [][]string{
		{"1", "1"}, {"int", "1"}, {"1", "int", ">0"}, {`"a"`, "string"}, {">=0", "<=10", "5"},
		{"{a: 1}", "{a: 1}"}, {"{a: 1, b: 2}", "{a: 1}", "{b: 2}"}, {"{a: int}", "{a: 1}"},
		{"[1, 2]", "[1, 2]"}, {"[...int]", "[1, 2]"}, {"[int, ...]", "[1]"}, {"[1, 2, ...]", "[1, 2]"},
		{"{a: b: c: 1}", "{a: b: c: 1}", "a: b: {}"}, {"*1 | int", "1"}, {"*1 | int", "*1 | int"},
		{"_", "1"}, {"{}", "{a: 1}"}, {"null", "null"}, {"1.0", "1.0"}, {"number", "1"}, {"{a: 1, ...}", "{a: 1}"},
		{"close({a: 1})", "{a: 1}"}, {`"a" | "b"`, `"a"`}, {`*"a" | "b"`, `"a"`}, {`*"a" | "b"`, `"b"`},
	}
	vs := Pick(g.r, vals)
	for _, v := range vs {
		if strings.Contains(v, ": {}") && !strings.HasPrefix(v, "{") {
			g.add(fmt.Sprintf("%s: %s", x, v))
			continue
		}
		g.add(fmt.Sprintf("%s: %s", x, v))
	}
	if g.r.Chance(1, 4) {
		g.add(fmt.Sprintf("%s: %s", g.id("y"), x))
		g.feat("ref-to-dup")
	}
	g.feat("plain-duplicates")
}

func (g *c20gen) unitLet() {
	f := g.r.Intn(g.nfiles)
	l, q := g.id("L"), g.id("q")
	switch g.r.Intn(3) {
	case 0:
		g.addIn(f, fmt.Sprintf("let %s = 1", l))
		g.addIn(f, fmt.Sprintf("%s: %s", q, l))
		g.add(fmt.Sprintf("%s: %s", q, Pick(g.r, []string{"1", "int"})))
	case 1:
		g.addIn(f, fmt.Sprintf("let %s = {a: *1 | int, b: string}", l))
		g.addIn(f, fmt.Sprintf("%s: %s", q, l))
		g.add(fmt.Sprintf("%s: {a: %s, b: \"x\"}", q, Pick(g.r, []string{"1", "2"})))
	case 2:
		g.addIn(f, fmt.Sprintf("%s: {let %s = {k: 1}, in: %s, in: k: 1}", q, l, l))
	}
	g.feat("let")
}

func (g *c20gen) unitIf() {
	d, fs := g.someDef()
	x := g.id("w")
	g.add(fmt.Sprintf("%s: %s & {%s}", x, d, g.dataText(fs)))
	y := g.id("flag")
	if fn, ok := c20numField(fs); ok {
		g.add(fmt.Sprintf("if %s.%s > 0 {%s: on: true}", x, fn, y))
	} else {
		g.add(fmt.Sprintf("if %s != _|_ {%s: on: true}", x, y))
	}
	switch g.r.Intn(3) {
	case 0:
		g.add(fmt.Sprintf("%s: on: true", y))
	case 1:
		g.add(fmt.Sprintf("%s: {on: true, extra: 1}", y))
	case 2:
		g.add(fmt.Sprintf("%s: on: bool", y))
	}
	g.feat("comprehension-if")
}

func (g *c20gen) unitInnerCompr() {
	x := g.id("m")
	g.add(fmt.Sprintf("%s: [string]: {n: *1 | int, if n > 1 {big: true}, if n <= 1 {big: false}}", x))
	for _, k := range []string{"p", "q"}[:1+g.r.Intn(2)] {
		var parts []string
		if g.r.Bool() {
			parts = append(parts, "n: "+Pick(g.r, []string{"1", "2"}))
		}
		if g.r.Bool() {
			parts = append(parts, "big: "+Pick(g.r, []string{"true", "false", "bool"}))
		}
		g.add(fmt.Sprintf("%s: %s: {%s}", x, k, strings.Join(parts, ", ")))
	}
	g.feat("comprehension-inner")
	g.feat("pattern")
}

func (g *c20gen) unitList() {
	x := g.id("l")
	switch g.r.Intn(4) {
	case 0:
		d, fs := g.someDef()
		g.add(fmt.Sprintf("%s: [...%s]", x, d))
		var els []string
		for i := 0; i < 1+g.r.Intn(3); i++ {
			els = append(els, "{"+g.dataText(fs)+"}")
		}
		g.add(fmt.Sprintf("%s: [%s]", x, strings.Join(els, ", ")))
	case 1:
		g.add(fmt.Sprintf("%s: [...*1 | int]", x))
		g.add(fmt.Sprintf("%s: [1, 2, 1]", x))
	case 2:
		g.add(fmt.Sprintf("%s: [{a: 1}, {a: 2}]", x))
		g.add(fmt.Sprintf("%s: [{a: 1}, {a: int}]", x))
	case 3:
		g.add(fmt.Sprintf("%s: [for i in [1, 2, 3] {v: i}]", x))
		g.add(fmt.Sprintf("%s: [{v: 1}, {v: 2}, {v: 3}]", x))
		g.feat("list-comprehension")
	}
	g.feat("list")
}

func (g *c20gen) unitRefs() {
	a, b := g.id("a"), g.id("b")
	switch g.r.Intn(5) {
	case 0:
		g.add(fmt.Sprintf("%s: 1", a))
		g.add(fmt.Sprintf("%s: %s", b, a))
		g.add(fmt.Sprintf("%s: 1", b))
	case 1:
		g.add(fmt.Sprintf("%s: >5", a))
		g.add(fmt.Sprintf("%s: <10", a))
		g.add(fmt.Sprintf("%s: 7", b))
		g.add(fmt.Sprintf("%s: %s", b, a))
	case 2:
		g.add(fmt.Sprintf("%s: {x: int, y: x}", a))
		g.add(fmt.Sprintf("%s: x: 5", a))
		if g.r.Bool() {
			g.add(fmt.Sprintf("%s: y: 5", a))
		}
	case 3:
		g.add(fmt.Sprintf("%s: {p: 1, q: 2}", a))
		g.add(fmt.Sprintf("%s: %s", b, a))
		g.add(fmt.Sprintf("%s: {p: 1}", b))
		g.add(fmt.Sprintf("%s: %s.q + 1", g.id("s"), b))
	case 4:
		g.add(fmt.Sprintf("%s: {x: *1 | int}", a))
		g.add(fmt.Sprintf("%s: %s & {x: 1}", b, a))
		g.add(fmt.Sprintf("%s: %s.x", g.id("t"), b))
	}
	g.feat("references")
}

func (g *c20gen) unitHiddenImport() {
	switch g.r.Intn(3) {
	case 0:
		h := g.id("_h")
		g.add(fmt.Sprintf("%s: {a: *1 | int}", h))
		g.add(fmt.Sprintf("%s: %s & {a: 1}", g.id("pub"), h))
		g.feat("hidden")
	case 1:
		f := g.r.Intn(g.nfiles)
		x := g.id("up")
		g.addIn(f, `import "strings"`)
		g.addIn(f, fmt.Sprintf(`%s: strings.ToUpper("ab")`, x))
		g.add(fmt.Sprintf(`%s: "AB"`, x))
		g.feat("import")
	case 2:
		x := g.id("cl")
		g.add(fmt.Sprintf("%s: close({a: int, b: *2 | int})", x))
		g.add(fmt.Sprintf("%s: {a: 1, b: 2}", x))
		g.feat("close-builtin")
	}
}

// c20GenPackage generates one package; unless errOK, candidates whose value has an
// evaluation error (trim.Files refuses those) are regenerated a few times.
func c20GenPackage(r *Rng, errOK bool) (c20Pkg, map[string]bool) {
	var p c20Pkg
	var feats map[string]bool
	for try := 0; try < 4; try++ {
		p, feats = c20GenPackage1(r.Sub(), errOK)
		if errOK {
			break
		}
		if l, err := c20Load(p); err == nil && l.val.Err() == nil {
			break
		}
	}
	return p, feats
}

func c20GenPackage1(r *Rng, errOK bool) (c20Pkg, map[string]bool) {
	g := &c20gen{r: r, feats: map[string]bool{}, defs: map[string][]c20field{}, errOK: errOK}
	g.nfiles = 1 + r.Intn(3)
	units := []func(){g.unitDefData, g.unitDefData, g.unitPattern, g.unitPattern, g.unitDisjStruct, g.unitRevive,
		g.unitDup, g.unitLet, g.unitIf, g.unitInnerCompr, g.unitList, g.unitRefs, g.unitHiddenImport}
	n := 1 + r.Intn(4)
	for i := 0; i < n; i++ {
		Pick(r, units)()
	}
	// distribute over files
	bodies := make([][]string, g.nfiles)
	imports := make([]map[string]bool, g.nfiles)
	order := make([]int, len(g.decls))
	for i := range order {
		order[i] = i
	}
	if r.Chance(2, 3) {
		Shuffle(r, order)
	}
	for _, i := range order {
		d := g.decls[i]
		f := d.file
		if f < 0 {
			f = r.Intn(g.nfiles)
		}
		if strings.HasPrefix(d.text, "import ") {
			if imports[f] == nil {
				imports[f] = map[string]bool{}
			}
			imports[f][d.text] = true
			continue
		}
		bodies[f] = append(bodies[f], d.text)
	}
	var p c20Pkg
	for f := 0; f < g.nfiles; f++ {
		var sb strings.Builder
		sb.WriteString("package p\n\n")
		for imp := range imports[f] {
			sb.WriteString(imp + "\n\n")
		}
		for _, t := range bodies[f] {
			sb.WriteString(t + "\n")
		}
		p.Names = append(p.Names, fmt.Sprintf("f%d.cue", f))
		p.Srcs = append(p.Srcs, sb.String())
	}
	g.feats[fmt.Sprintf("files-%d", g.nfiles)] = true
	return p, g.feats
}
