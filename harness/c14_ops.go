package main

// C14, extension: mvs.Req / Upgrade / UpgradeAll / Downgrade (internal/mod/mvs/mvs.go) against
// the transcriptions in lean/CueVerif/Model/MvsOps.lean, on the same generated graphs as the
// BuildList stream.  The generic mvs code is instantiated with a small node type whose
// Versions implementation can represent the version "none" (module.Version cannot), and whose
// Max is the production module.Versions.Max on real semver strings.

import (
	"fmt"
	"sort"
	"strings"

	"cuelang.org/go/internal/mod/mvs"
	"cuelang.org/go/mod/module"
)

type gnode struct{ p, v int }

func (n gnode) arr() [2]int { return [2]int{n.p, n.v} }

type gReqs struct {
	g     *mvsGraph
	avail map[int][]int // path -> known ranks
}

func (gReqs) Path(n gnode) string { return fmt.Sprintf("m%d", n.p) }
func (gReqs) Version(n gnode) string {
	switch n.v {
	case mainRank:
		return ""
	case 0:
		return "none"
	}
	return rankVersions[n.v-1]
}
func (gReqs) New(path, version string) (gnode, error) {
	var p int
	if _, err := fmt.Sscanf(path, "m%d", &p); err != nil {
		return gnode{}, err
	}
	switch version {
	case "":
		return gnode{p, mainRank}, nil
	case "none":
		return gnode{p, 0}, nil
	}
	for i, s := range rankVersions {
		if s == version {
			return gnode{p, i + 1}, nil
		}
	}
	return gnode{}, fmt.Errorf("unknown version %q", version)
}
func (gReqs) Max(v1, v2 string) string { return module.Versions{}.Max(v1, v2) }
func (q gReqs) Required(m gnode) ([]gnode, error) {
	var out []gnode
	for _, e := range q.g.edges[m.arr()] {
		out = append(out, gnode{e[0], e[1]})
	}
	return out, nil
}

// Upgrade: the highest known version of the path (m itself when nothing higher is known).
func (q gReqs) Upgrade(m gnode) (gnode, error) {
	best := m.v
	for _, v := range q.avail[m.p] {
		if v > best {
			best = v
		}
	}
	return gnode{m.p, best}, nil
}

// Previous: the highest known version of the path below m, or "none".
func (q gReqs) Previous(m gnode) (gnode, error) {
	best := 0
	for _, v := range q.avail[m.p] {
		if v < m.v && v > best {
			best = v
		}
	}
	return gnode{m.p, best}, nil
}

func gnodesStr(ns []gnode) string {
	if len(ns) == 0 {
		return "-"
	}
	ss := make([]string, len(ns))
	for i, n := range ns {
		ss[i] = fmt.Sprintf("%d.%d", n.p, n.v)
	}
	return strings.Join(ss, ",")
}

func availStr(av map[int][]int) string {
	var ns []gnode
	for p, vs := range av {
		for _, v := range vs {
			ns = append(ns, gnode{p, v})
		}
	}
	sort.Slice(ns, func(i, j int) bool {
		if ns[i].p != ns[j].p {
			return ns[i].p < ns[j].p
		}
		return ns[i].v < ns[j].v
	})
	return gnodesStr(ns)
}

func guard(f func() ([]gnode, error)) (res string, list []gnode) {
	defer func() {
		if e := recover(); e != nil {
			res, list = "panic", nil
		}
	}()
	l, err := f()
	if err != nil {
		return "error", nil
	}
	return gnodesStr(l), l
}

func selOf(list []gnode) map[int]int {
	m := map[int]int{}
	for _, n := range list {
		m[n.p] = n.v
	}
	return m
}

// withMain returns a copy of the graph in which the main module requires exactly list.
func withMain(g *mvsGraph, list []gnode) *mvsGraph {
	h := &mvsGraph{nPaths: g.nPaths, roots: g.roots, edges: map[[2]int][][2]int{}}
	for k, v := range g.edges {
		h.edges[k] = v
	}
	var l [][2]int
	for _, n := range list {
		l = append(l, n.arr())
	}
	h.edges[g.roots[0]] = l
	return h
}

func opsCases(c *Cfg, r *Rng) {
	n := c.Pick(2500, 20000)
	if c.Focus {
		n = c.Pick(6000, 20000)
	}
	for i := 0; i < n; i++ {
		g := genGraph(r.Sub())
		gs := g.String()
		main := gnode{0, mainRank}
		avail := map[int][]int{}
		var known []gnode
		for k := range g.edges {
			if k[1] != mainRank {
				dup := false
				for _, v := range avail[k[0]] {
					dup = dup || v == k[1]
				}
				if !dup {
					avail[k[0]] = append(avail[k[0]], k[1])
				}
			}
		}
		for p, vs := range avail {
			sort.Ints(vs)
			for _, v := range vs {
				known = append(known, gnode{p, v})
			}
		}
		sort.Slice(known, func(i, j int) bool {
			if known[i].p != known[j].p {
				return known[i].p < known[j].p
			}
			return known[i].v < known[j].v
		})
		q := gReqs{g: g, avail: avail}
		bres, blist := guard(func() ([]gnode, error) { return mvs.BuildList([]gnode{main}, q) })
		c.Op("O", "build 0.99 "+gs, bres)
		if blist == nil {
			continue
		}
		bsel := selOf(blist)
		c.Count(fmt.Sprintf("ops/buildlist-len=%02d", len(blist)))

		// ---- Req -----------------------------------------------------------------
		var base []int
		for _, m := range blist[1:] {
			if r.Chance(1, 4) {
				base = append(base, m.p)
			}
		}
		if len(base) > 0 && r.Chance(1, 5) {
			base = append(base, base[0])
		}
		Shuffle(r, base)
		var baseStr, basePaths []string
		for _, p := range base {
			baseStr = append(baseStr, fmt.Sprint(p))
			basePaths = append(basePaths, fmt.Sprintf("m%d", p))
		}
		bs := "-"
		if len(base) > 0 {
			bs = strings.Join(baseStr, ",")
		}
		rres, rlist := guard(func() ([]gnode, error) { return mvs.Req(main, basePaths, q) })
		// Req's specification (sufficient, minimal, contains base) does not determine the list
		// uniquely, so the comparison with the model's list is an internal-level question; the
		// specification itself is evaluated on the implementation by the Direct predicates below.
		c.Op("I", "req 0.99 "+gs+" "+bs, rres)
		c.Case("req "+gs+" "+bs, len(blist) > 2)
		c.Count(fmt.Sprintf("ops/req base=%d min=%02d", len(base), len(rlist)))
		if rres != "panic" && rres != "error" {
			// the property's own predicates on the implementation alone
			inBase := map[int]bool{}
			for _, p := range base {
				inBase[p] = true
			}
			have := map[int]bool{}
			for _, m := range rlist {
				have[m.p] = true
			}
			okBase := true
			for _, p := range base {
				okBase = okBase && have[p]
			}
			c.Direct(okBase, "mvs-req-base", "Req's result misses a path listed in base",
				map[string]any{"graph": gs, "base": bs, "req": rres})
			sres, _ := guard(func() ([]gnode, error) {
				return mvs.BuildList([]gnode{main}, gReqs{g: withMain(g, rlist), avail: avail})
			})
			c.Direct(sres == bres, "mvs-req-insufficient",
				"the build list of Req's result differs from the original build list",
				map[string]any{"graph": gs, "base": bs, "req": rres, "want": bres, "got": sres})
			for j, m := range rlist {
				if inBase[m.p] {
					continue
				}
				rest := append(append([]gnode{}, rlist[:j]...), rlist[j+1:]...)
				dres, _ := guard(func() ([]gnode, error) {
					return mvs.BuildList([]gnode{main}, gReqs{g: withMain(g, rest), avail: avail})
				})
				c.Direct(dres != bres, "mvs-req-not-minimal",
					"an element of Req's result can be dropped without changing the build list",
					map[string]any{"graph": gs, "base": bs, "req": rres, "droppable": fmt.Sprintf("%d.%d", m.p, m.v)})
			}
		}

		// ---- Upgrade -------------------------------------------------------------
		var ups []gnode
		for k := 1 + r.Intn(3); k > 0 && len(known) > 0; k-- {
			u := Pick(r, known)
			if u.p == 0 {
				continue
			}
			if r.Chance(1, 5) { // a version nobody requires / nobody knows
				u.v = 1 + r.Intn(len(rankVersions))
			}
			ups = append(ups, u)
		}
		ures, ulist := guard(func() ([]gnode, error) { return mvs.Upgrade(main, q, ups...) })
		c.Op("O", "upgrade 0.99 "+gs+" "+gnodesStr(ups), ures)
		c.Count(fmt.Sprintf("ops/upgrade n=%d", len(ups)))
		if ulist != nil {
			usel := selOf(ulist)
			ok := true
			for p, v := range bsel {
				ok = ok && usel[p] >= v
			}
			for _, u := range ups {
				ok = ok && usel[u.p] >= u.v
			}
			c.Direct(ok, "mvs-upgrade-lowers", "Upgrade lowered a selected version or selected less than requested",
				map[string]any{"graph": gs, "ups": gnodesStr(ups), "before": bres, "after": ures})
		}

		// ---- UpgradeAll ----------------------------------------------------------
		ares, alist := guard(func() ([]gnode, error) { return mvs.UpgradeAll(main, q) })
		c.Op("O", "upgradeall 0.99 "+gs+" "+gnodesStr(known), ares)
		if alist != nil {
			asel := selOf(alist)
			ok := true
			for p, v := range bsel {
				ok = ok && asel[p] >= v
			}
			// every module in the result is at the highest known version of its path
			for _, m := range alist[1:] {
				u, _ := q.Upgrade(m)
				ok = ok && u == m
			}
			c.Direct(ok, "mvs-upgradeall-lowers", "UpgradeAll lowered a selected version or left a module below its latest version",
				map[string]any{"graph": gs, "before": bres, "after": ares})
		}

		// ---- Downgrade -----------------------------------------------------------
		var downs []gnode
		for k := 1 + r.Intn(2); k > 0 && len(blist) > 1; k-- {
			m := Pick(r, blist[1:])
			d := gnode{m.p, 0}
			switch {
			case r.Chance(1, 8): // remove the module
			case r.Chance(1, 8): // not a downgrade at all
				d.v = 1 + r.Intn(len(rankVersions))
			case m.v > 1:
				d.v = 1 + r.Intn(m.v-1)
			}
			downs = append(downs, d)
		}
		dres, dlist := guard(func() ([]gnode, error) { return mvs.Downgrade(main, q, downs...) })
		c.Op("I", "downgrade 0.99 "+gs+" "+gnodesStr(known)+" "+gnodesStr(downs), dres)
		c.Count(fmt.Sprintf("ops/downgrade n=%d", len(downs)))
		if dlist != nil {
			dsel := selOf(dlist)
			ok := true
			for _, d := range downs {
				if v, in := dsel[d.p]; in && v > d.v {
					ok = false
				}
			}
			// nothing is upgraded by a downgrade
			for p, v := range dsel {
				if b, in := bsel[p]; in && v > b {
					ok = false
				}
			}
			c.Direct(ok, "mvs-downgrade-bound", "Downgrade's build list has a module above the requested version or above its version in the original build list",
				map[string]any{"graph": gs, "downs": gnodesStr(downs), "before": bres, "after": dres})
		}
	}
}
