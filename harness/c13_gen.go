package main

// Generators for C13: an order-preserving JSON value type, schemas over the keyword subset
// (nesting depth <= 3), schema-directed instances that sit on the schemas' boundaries, and
// the skeleton cases for the internal correspondence with state.finalize.

import (
	"bytes"
	"encoding/json"
	"fmt"
	"io"
	"math/big"
	"strings"
)

// ---- order-preserving JSON values --------------------------------------------------------

type jv interface{} // nil | bool | jnum | string | []jv | jobj
type jnum string    // the literal text, e.g. "1", "1.0", "1e1"
type jkv struct {
	k string
	v jv
}
type jobj []jkv

func (o jobj) get(k string) (jv, bool) {
	for _, e := range o {
		if e.k == k {
			return e.v, true
		}
	}
	return nil, false
}

func renderJV(v jv) string {
	var sb strings.Builder
	writeJV(&sb, v)
	return sb.String()
}

func writeJV(sb *strings.Builder, v jv) {
	switch x := v.(type) {
	case nil:
		sb.WriteString("null")
	case bool:
		if x {
			sb.WriteString("true")
		} else {
			sb.WriteString("false")
		}
	case jnum:
		sb.WriteString(string(x))
	case string:
		b, _ := json.Marshal(x)
		sb.Write(b)
	case []jv:
		sb.WriteByte('[')
		for i, e := range x {
			if i > 0 {
				sb.WriteByte(',')
			}
			writeJV(sb, e)
		}
		sb.WriteByte(']')
	case jobj:
		sb.WriteByte('{')
		for i, e := range x {
			if i > 0 {
				sb.WriteByte(',')
			}
			b, _ := json.Marshal(e.k)
			sb.Write(b)
			sb.WriteByte(':')
			writeJV(sb, e.v)
		}
		sb.WriteByte('}')
	default:
		panic(fmt.Sprintf("bad jv %T", v))
	}
}

func parseJV(s string) (jv, error) {
	dec := json.NewDecoder(bytes.NewReader([]byte(s)))
	dec.UseNumber()
	v, err := parseJVTok(dec)
	if err != nil {
		return nil, err
	}
	if _, err := dec.Token(); err != io.EOF {
		return nil, fmt.Errorf("trailing data")
	}
	return v, nil
}

func parseJVTok(dec *json.Decoder) (jv, error) {
	t, err := dec.Token()
	if err != nil {
		return nil, err
	}
	switch x := t.(type) {
	case json.Delim:
		switch x {
		case '[':
			a := []jv{}
			for dec.More() {
				e, err := parseJVTok(dec)
				if err != nil {
					return nil, err
				}
				a = append(a, e)
			}
			_, err := dec.Token()
			return a, err
		case '{':
			o := jobj{}
			for dec.More() {
				kt, err := dec.Token()
				if err != nil {
					return nil, err
				}
				k, ok := kt.(string)
				if !ok {
					return nil, fmt.Errorf("bad key")
				}
				e, err := parseJVTok(dec)
				if err != nil {
					return nil, err
				}
				o = append(o, jkv{k, e})
			}
			_, err := dec.Token()
			return o, err
		}
		return nil, fmt.Errorf("unexpected delimiter")
	case json.Number:
		return jnum(x.String()), nil
	case string:
		return x, nil
	case bool:
		return x, nil
	case nil:
		return nil, nil
	}
	return nil, fmt.Errorf("unexpected token %T", t)
}

// exact value of a JSON number literal
func numRat(n jnum) *big.Rat {
	r, ok := new(big.Rat).SetString(string(n))
	if !ok {
		return new(big.Rat)
	}
	return r
}

// ratDec renders a rational with a finite decimal expansion; floatForm forces a ".0" on
// integral values.
func ratDec(x *big.Rat, floatForm bool) jnum {
	if x.IsInt() {
		s := x.Num().String()
		if floatForm {
			s += ".0"
		}
		return jnum(s)
	}
	s := x.FloatString(6)
	s = strings.TrimRight(s, "0")
	return jnum(s)
}

func isIntLiteral(n jnum) bool { return !strings.ContainsAny(string(n), ".eE") }

// ---- pools -------------------------------------------------------------------------------

var (
	c13NumPool   = []jnum{"0", "1", "2", "3", "5", "10", "-1", "1.5", "2.5", "0.5", "1.0", "2.0", "3.0", "0.1", "0.3", "-2.5", "1e1"}
	c13MultPool  = []jnum{"1", "2", "3", "0.5", "1.5", "0.1", "2.0"}
	c13StrPool   = []string{"", "a", "b", "ab", "ba", "abc", "1", "12", "a1", "😀", "😀b", "é", "aé😀", "bb"}
	c13NamePool  = []string{"a", "b", "ab", "c", "1", "12", "a1", "bb"}
	c13Patterns  = []string{"^a", "b$", "^[0-9]+$", ".", "^$"}
	c13TypeNames = []string{"null", "boolean", "number", "integer", "string", "array", "object"}
	c13Glyphs    = []string{"a", "b", "1", "é", "😀", "c"}
)

func c13PatternMatches(p, s string) bool {
	switch p {
	case "^a":
		return strings.HasPrefix(s, "a")
	case "b$":
		return strings.HasSuffix(s, "b")
	case "^[0-9]+$":
		if s == "" {
			return false
		}
		for _, c := range s {
			if c < '0' || c > '9' {
				return false
			}
		}
		return true
	case ".":
		return s != ""
	case "^$":
		return s == ""
	}
	return false
}

func genScalar(r *Rng) jv {
	switch r.Intn(5) {
	case 0:
		return nil
	case 1:
		return r.Bool()
	case 2, 3:
		return Pick(r, c13NumPool)
	}
	return Pick(r, c13StrPool)
}

func genRandomInstance(r *Rng, depth int) jv {
	if depth <= 0 || r.Chance(1, 2) {
		return genScalar(r)
	}
	if r.Bool() {
		n := r.Intn(4)
		a := make([]jv, 0, n)
		for i := 0; i < n; i++ {
			a = append(a, genRandomInstance(r, depth-1))
		}
		return a
	}
	return genRandomObject(r, depth, r.Intn(4))
}

func genRandomObject(r *Rng, depth, n int) jv {
	o := jobj{}
	names := append([]string{}, c13NamePool...)
	Shuffle(r, names)
	for i := 0; i < n && i < len(names); i++ {
		o = append(o, jkv{names[i], genRandomInstance(r, depth-1)})
	}
	return o
}

// ---- schema generator --------------------------------------------------------------------

type schemaGen struct {
	r      *Rng
	defs   []string
	defSch map[string]jv
	curDef int // index of the $defs entry being generated; len(defs) for the root
	rootS  jv
}

func newSchemaGen(r *Rng) *schemaGen { return &schemaGen{r: r, defSch: map[string]jv{}} }

func (g *schemaGen) root() jv {
	r := g.r
	if r.Chance(1, 4) {
		n := 1 + r.Intn(2)
		for i := 0; i < n; i++ {
			g.defs = append(g.defs, fmt.Sprintf("d%d", i))
		}
		for i, name := range g.defs {
			g.curDef = i
			g.defSch[name] = g.schema(2, false, true)
		}
	}
	g.curDef = len(g.defs)
	s := g.schema(3, false, true)
	if len(g.defs) > 0 {
		o, ok := s.(jobj)
		if !ok {
			o = jobj{}
		}
		d := jobj{}
		for _, name := range g.defs {
			d = append(d, jkv{name, g.defSch[name]})
		}
		if r.Bool() {
			o = append(jobj{{"$defs", d}}, o...)
		} else {
			o = append(o, jkv{"$defs", d})
		}
		s = o
	}
	g.rootS = s
	return s
}

func (g *schemaGen) num() jnum { return Pick(g.r, c13NumPool) }
func (g *schemaGen) small() jnum {
	return jnum(fmt.Sprint(g.r.Intn(4)))
}

// sub generates a subschema one level down (guarded = reached through an instance descent).
func (g *schemaGen) sub(depth int, guarded bool) jv {
	if depth <= 0 {
		// no nesting budget left: only the trivial schemas
		switch g.r.Intn(8) {
		case 0:
			return false
		case 1:
			return jobj{}
		}
		return true
	}
	return g.schema(depth-1, guarded, false)
}

func (g *schemaGen) typeValue(focus string) jv {
	r := g.r
	if r.Chance(2, 3) {
		if focus != "" && r.Chance(2, 3) {
			return focus
		}
		return Pick(r, c13TypeNames)
	}
	n := 1 + r.Intn(3)
	names := append([]string{}, c13TypeNames...)
	Shuffle(r, names)
	a := []jv{}
	if focus != "" {
		a = append(a, focus)
	}
	for i := 0; len(a) < n+1 && i < len(names); i++ {
		if names[i] != focus {
			a = append(a, names[i])
		}
	}
	Shuffle(r, a)
	return a
}

var c13FocusKinds = []string{"number", "integer", "string", "array", "object"}

func (g *schemaGen) schema(depth int, guarded bool, isRoot bool) jv {
	r := g.r
	if !isRoot && r.Chance(1, 14) {
		return r.Chance(3, 4)
	}
	if !isRoot && r.Chance(1, 30) {
		return jobj{}
	}
	o := jobj{}
	have := map[string]bool{}
	add := func(k string, v jv) {
		if !have[k] {
			have[k] = true
			o = append(o, jkv{k, v})
		}
	}
	focus := ""
	if r.Chance(3, 5) {
		focus = Pick(r, c13FocusKinds)
	}
	n := 1 + r.Intn(2)
	if isRoot && r.Chance(1, 3) {
		n++
	}
	if !isRoot && depth <= 1 && r.Chance(1, 2) {
		n = 1
	}
	groupFor := func() int {
		// weights: type 5, enum 1, const 1, numeric 3, string 3, object 4, objmisc 2, array 3,
		// combinator 3, if 2, ref 1
		if focus != "" && r.Chance(1, 2) {
			switch focus {
			case "number", "integer":
				return 3
			case "string":
				return 4
			case "object":
				if r.Bool() {
					return 5
				}
				return 6
			case "array":
				return 7
			}
		}
		w := []int{5, 1, 1, 3, 3, 4, 2, 3, 3, 2, 1}
		t := 0
		for _, x := range w {
			t += x
		}
		k := r.Intn(t)
		for i, x := range w {
			if k < x {
				return i
			}
			k -= x
		}
		return 0
	}
	for i := 0; i < n; i++ {
		switch groupFor() {
		case 0:
			add("type", g.typeValue(focus))
		case 1:
			m := 1 + r.Intn(4)
			if r.Chance(1, 40) {
				m = 0
			}
			a := []jv{}
			for j := 0; j < m; j++ {
				a = append(a, g.constValue(focus))
			}
			add("enum", a)
		case 2:
			add("const", g.constValue(focus))
		case 3:
			for j := 0; j < 1+r.Intn(2); j++ {
				switch r.Intn(5) {
				case 0:
					add("minimum", g.num())
				case 1:
					add("maximum", g.num())
				case 2:
					add("exclusiveMinimum", g.num())
				case 3:
					add("exclusiveMaximum", g.num())
				case 4:
					add("multipleOf", Pick(r, c13MultPool))
				}
			}
		case 4:
			for j := 0; j < 1+r.Intn(2); j++ {
				switch r.Intn(3) {
				case 0:
					add("minLength", g.small())
				case 1:
					add("maxLength", g.small())
				case 2:
					add("pattern", Pick(r, c13Patterns))
				}
			}
		case 5:
			names := append([]string{}, c13NamePool...)
			Shuffle(r, names)
			np := 1 + r.Intn(2)
			if isRoot && r.Chance(1, 3) {
				np++
			}
			if depth > 0 || r.Bool() {
				props := jobj{}
				for j := 0; j < np; j++ {
					props = append(props, jkv{names[j], g.sub(depth, true)})
				}
				add("properties", props)
			}
			if r.Chance(1, 2) {
				// required ⊆ / ⊄ properties
				req := []jv{}
				for j := 0; j < np+1 && j < len(names); j++ {
					if r.Chance(1, 2) {
						req = append(req, names[j])
					}
				}
				add("required", req)
			}
			if r.Chance(1, 3) {
				pp := jobj{{Pick(r, c13Patterns), g.sub(depth, true)}}
				if r.Chance(1, 3) {
					if p2 := Pick(r, c13Patterns); p2 != pp[0].k {
						pp = append(pp, jkv{p2, g.sub(depth, true)})
					}
				}
				add("patternProperties", pp)
			}
			if r.Chance(1, 2) {
				switch r.Intn(3) {
				case 0:
					add("additionalProperties", false)
				case 1:
					add("additionalProperties", g.sub(depth, true))
				case 2:
					add("additionalProperties", true)
				}
			}
		case 6:
			switch r.Intn(6) {
			case 0:
				req := []jv{}
				for j := 0; j < 1+r.Intn(2); j++ {
					req = append(req, Pick(r, c13NamePool))
				}
				add("required", req)
			case 1:
				add("minProperties", g.small())
			case 2:
				add("maxProperties", g.small())
			case 3:
				add("propertyNames", g.nameSchema(depth))
			case 4:
				if r.Bool() {
					add("additionalProperties", false)
				} else {
					add("additionalProperties", g.sub(depth, true))
				}
			case 5:
				pp := jobj{{Pick(r, c13Patterns), g.sub(depth, true)}}
				if r.Bool() {
					p2 := Pick(r, c13Patterns)
					if p2 != pp[0].k {
						pp = append(pp, jkv{p2, g.sub(depth, true)})
					}
				}
				add("patternProperties", pp)
			}
		case 7:
			for j := 0; j < 1+r.Intn(2); j++ {
				switch r.Intn(5) {
				case 0:
					add("items", g.sub(depth, true))
				case 1:
					add("minItems", g.small())
				case 2:
					add("maxItems", g.small())
				case 3:
					add("uniqueItems", r.Chance(4, 5))
				case 4:
					add("contains", g.sub(depth, true))
				}
			}
		case 8:
			if depth <= 0 {
				add("type", g.typeValue(focus))
				continue
			}
			switch r.Intn(4) {
			case 0, 1, 2:
				m := 1 + r.Intn(3)
				a := []jv{}
				for j := 0; j < m; j++ {
					a = append(a, g.sub(depth, guarded))
				}
				add([]string{"allOf", "anyOf", "oneOf"}[r.Intn(3)], a)
			case 3:
				add("not", g.sub(depth, guarded))
			}
		case 9:
			if depth <= 0 {
				add("type", g.typeValue(focus))
				continue
			}
			cond := g.sub(depth, guarded)
			if r.Chance(1, 6) {
				cond = g.unsat()
			}
			add("if", cond)
			if r.Chance(4, 5) {
				if r.Chance(1, 8) {
					add("then", g.unsat())
				} else {
					add("then", g.sub(depth, guarded))
				}
			}
			if r.Chance(3, 5) || !have["then"] && r.Chance(4, 5) {
				if r.Chance(1, 8) {
					add("else", g.unsat())
				} else {
					add("else", g.sub(depth, guarded))
				}
			}
		case 10:
			var cands []string
			for i, d := range g.defs {
				if i < g.curDef || guarded {
					cands = append(cands, "#/$defs/"+d)
				}
			}
			if guarded {
				cands = append(cands, "#")
			}
			if len(cands) == 0 {
				add("type", g.typeValue(focus))
				continue
			}
			add("$ref", Pick(r, cands))
		}
	}
	if r.Bool() {
		Shuffle(r, o)
	}
	return o
}

// unsat: a subschema no instance satisfies, in forms that survive the import
func (g *schemaGen) unsat() jv {
	switch g.r.Intn(4) {
	case 0:
		return jobj{{"not", jobj{}}}
	case 1:
		return jobj{{"not", true}}
	case 2:
		return jobj{{"enum", []jv{jnum("1")}}, {"minimum", jnum("5")}}
	}
	return false
}

// nameSchema: a schema meant for property names (strings)
func (g *schemaGen) nameSchema(depth int) jv {
	r := g.r
	switch r.Intn(6) {
	case 0:
		return jobj{{"pattern", Pick(r, c13Patterns)}}
	case 1:
		return jobj{{"maxLength", g.small()}}
	case 2:
		return jobj{{"enum", []jv{Pick(r, c13NamePool), Pick(r, c13NamePool)}}}
	case 3:
		return jobj{{"const", Pick(r, c13NamePool)}}
	case 4:
		return r.Bool()
	}
	return g.sub(depth, true)
}

func (g *schemaGen) constValue(focus string) jv {
	r := g.r
	switch focus {
	case "number", "integer":
		if r.Chance(3, 4) {
			return g.num()
		}
	case "string":
		if r.Chance(3, 4) {
			return Pick(r, c13StrPool)
		}
	case "array":
		if r.Chance(3, 4) {
			return genRandomInstance(r, 1)
		}
	}
	if r.Chance(1, 4) {
		n := r.Intn(3)
		if r.Bool() {
			a := []jv{}
			for i := 0; i < n; i++ {
				a = append(a, genScalar(r))
			}
			return a
		}
		o := jobj{}
		for i := 0; i < n; i++ {
			o = append(o, jkv{c13NamePool[i], genScalar(r)})
		}
		return o
	}
	return genScalar(r)
}

// ---- schema-directed instances -------------------------------------------------------------

func (g *schemaGen) resolve(ref string) jv {
	if ref == "#" {
		return g.rootS
	}
	if strings.HasPrefix(ref, "#/$defs/") {
		if s, ok := g.defSch[ref[8:]]; ok {
			return s
		}
	}
	return true
}

// variant: the value itself, or the same number in the other literal form, or a near miss
func (g *schemaGen) variant(v jv) jv {
	r := g.r
	switch r.Intn(10) {
	case 0, 1, 2, 3, 4, 5:
		return v
	case 6, 7:
		return toggleNumForm(r, v)
	}
	switch x := v.(type) {
	case []jv:
		if len(x) > 0 && r.Bool() {
			return append([]jv{}, x[:len(x)-1]...)
		}
		return append(append([]jv{}, x...), genScalar(r))
	case jobj:
		if len(x) > 0 && r.Bool() {
			if r.Bool() { // same members, other order
				y := append(jobj{}, x...)
				Shuffle(r, y)
				return y
			}
			return append(jobj{}, x[:len(x)-1]...)
		}
		y := append(jobj{}, x...)
		if _, ok := y.get("c"); !ok {
			y = append(y, jkv{"c", genScalar(r)})
		}
		return y
	case jnum:
		return ratDec(new(big.Rat).Add(numRat(x), big.NewRat(1, 1)), false)
	case string:
		return x + Pick(r, c13Glyphs)
	}
	return genScalar(r)
}

// toggleNumForm rewrites integral numbers 1 <-> 1.0 somewhere inside v
func toggleNumForm(r *Rng, v jv) jv {
	switch x := v.(type) {
	case jnum:
		q := numRat(x)
		if q.IsInt() {
			return ratDec(q, isIntLiteral(x))
		}
		return x
	case []jv:
		y := make([]jv, len(x))
		for i, e := range x {
			y[i] = toggleNumForm(r, e)
		}
		return y
	case jobj:
		y := make(jobj, len(x))
		for i, e := range x {
			y[i] = jkv{e.k, toggleNumForm(r, e.v)}
		}
		return y
	}
	return v
}

func natOf(v jv) (int, bool) {
	n, ok := v.(jnum)
	if !ok {
		return 0, false
	}
	q := numRat(n)
	if !q.IsInt() || q.Sign() < 0 || !q.Num().IsInt64() {
		return 0, false
	}
	return int(q.Num().Int64()), true
}

func (g *schemaGen) strOfLen(n int) string {
	var sb strings.Builder
	for i := 0; i < n; i++ {
		sb.WriteString(Pick(g.r, c13Glyphs))
	}
	return sb.String()
}

func around(r *Rng, n int) int {
	k := n + r.Intn(3) - 1
	if k < 0 {
		k = 0
	}
	return k
}

func (g *schemaGen) instFor(s jv, depth int) jv {
	r := g.r
	o, ok := s.(jobj)
	if !ok || depth <= 0 {
		return genRandomInstance(r, 2)
	}
	if v, ok := o.get("$ref"); ok && r.Chance(1, 2) {
		if ref, ok := v.(string); ok {
			return g.instFor(g.resolve(ref), depth-1)
		}
	}
	for _, k := range []string{"allOf", "anyOf", "oneOf"} {
		if v, ok := o.get(k); ok && r.Chance(1, 2) {
			if a, ok := v.([]jv); ok && len(a) > 0 {
				return g.instFor(Pick(r, a), depth-1)
			}
		}
	}
	if v, ok := o.get("not"); ok && r.Chance(1, 3) {
		return g.instFor(v, depth-1)
	}
	if v, ok := o.get("if"); ok && r.Chance(1, 2) {
		k := Pick(r, []string{"if", "then", "else"})
		if w, ok := o.get(k); ok {
			v = w
		}
		return g.instFor(v, depth-1)
	}
	if v, ok := o.get("const"); ok && r.Chance(2, 3) {
		return g.variant(v)
	}
	if v, ok := o.get("enum"); ok && r.Chance(2, 3) {
		if a, ok := v.([]jv); ok && len(a) > 0 {
			return g.variant(Pick(r, a))
		}
	}
	// choose a kind
	kind := ""
	if v, ok := o.get("type"); ok && r.Chance(4, 5) {
		switch t := v.(type) {
		case string:
			kind = t
		case []jv:
			if len(t) > 0 {
				kind, _ = Pick(r, t).(string)
			}
		}
	}
	if kind == "" {
		var ks []string
		for _, e := range o {
			switch e.k {
			case "minimum", "maximum", "exclusiveMinimum", "exclusiveMaximum", "multipleOf":
				ks = append(ks, "number")
			case "minLength", "maxLength", "pattern":
				ks = append(ks, "string")
			case "properties", "required", "additionalProperties", "patternProperties", "propertyNames", "minProperties", "maxProperties":
				ks = append(ks, "object")
			case "items", "minItems", "maxItems", "uniqueItems", "contains":
				ks = append(ks, "array")
			}
		}
		if len(ks) > 0 && r.Chance(5, 6) {
			kind = Pick(r, ks)
		} else {
			kind = Pick(r, c13TypeNames)
		}
	}
	switch kind {
	case "null":
		return nil
	case "boolean":
		return r.Bool()
	case "number", "integer":
		return g.numFor(o, kind == "integer")
	case "string":
		return g.strFor(o)
	case "array":
		return g.arrFor(o, depth)
	case "object":
		return g.objFor(o, depth)
	}
	return genRandomInstance(r, 2)
}

func (g *schemaGen) numFor(o jobj, integer bool) jv {
	r := g.r
	var cands []*big.Rat
	for _, k := range []string{"minimum", "maximum", "exclusiveMinimum", "exclusiveMaximum"} {
		if v, ok := o.get(k); ok {
			if n, ok := v.(jnum); ok {
				b := numRat(n)
				for _, d := range []*big.Rat{big.NewRat(0, 1), big.NewRat(1, 1), big.NewRat(-1, 1), big.NewRat(1, 2), big.NewRat(-1, 2), big.NewRat(1, 10)} {
					cands = append(cands, new(big.Rat).Add(b, d))
				}
			}
		}
	}
	if v, ok := o.get("multipleOf"); ok {
		if n, ok := v.(jnum); ok {
			m := numRat(n)
			for k := int64(-1); k <= 4; k++ {
				x := new(big.Rat).Mul(m, big.NewRat(k, 1))
				cands = append(cands, x, new(big.Rat).Add(x, big.NewRat(1, 2)), new(big.Rat).Add(x, big.NewRat(1, 10)))
			}
		}
	}
	var q *big.Rat
	if len(cands) > 0 && r.Chance(5, 6) {
		q = Pick(r, cands)
	} else {
		q = numRat(Pick(r, c13NumPool))
	}
	if integer && !q.IsInt() && r.Chance(2, 3) {
		q = new(big.Rat).SetInt(new(big.Int).Quo(q.Num(), q.Denom()))
	}
	if q.IsInt() {
		// integral values in both literal forms: 3 and 3.0
		return ratDec(q, r.Chance(1, 3))
	}
	return ratDec(q, false)
}

func (g *schemaGen) strFor(o jobj) jv {
	r := g.r
	n := r.Intn(4)
	var lens []int
	for _, k := range []string{"minLength", "maxLength"} {
		if v, ok := o.get(k); ok {
			if m, ok := natOf(v); ok {
				lens = append(lens, m)
			}
		}
	}
	if len(lens) > 0 {
		n = around(r, Pick(r, lens))
	}
	s := g.strOfLen(n)
	if v, ok := o.get("pattern"); ok && r.Chance(2, 3) {
		if p, ok := v.(string); ok {
			s = g.strMatching(p, n)
		}
	}
	return s
}

// strMatching builds a string of about n code points that matches p
func (g *schemaGen) strMatching(p string, n int) string {
	r := g.r
	switch p {
	case "^a":
		if n == 0 {
			n = 1
		}
		return "a" + g.strOfLen(n-1)
	case "b$":
		if n == 0 {
			n = 1
		}
		return g.strOfLen(n-1) + "b"
	case "^[0-9]+$":
		if n == 0 {
			n = 1
		}
		var sb strings.Builder
		for i := 0; i < n; i++ {
			sb.WriteByte(byte('0' + r.Intn(10)))
		}
		return sb.String()
	case ".":
		if n == 0 {
			n = 1
		}
		return g.strOfLen(n)
	case "^$":
		return ""
	}
	return g.strOfLen(n)
}

func (g *schemaGen) arrFor(o jobj, depth int) jv {
	r := g.r
	n := r.Intn(4)
	var lens []int
	for _, k := range []string{"minItems", "maxItems"} {
		if v, ok := o.get(k); ok {
			if m, ok := natOf(v); ok {
				lens = append(lens, m)
			}
		}
	}
	if len(lens) > 0 {
		n = around(r, Pick(r, lens))
	}
	items, hasItems := o.get("items")
	contains, hasContains := o.get("contains")
	a := make([]jv, 0, n)
	for i := 0; i < n; i++ {
		switch {
		case hasContains && r.Chance(1, 3):
			a = append(a, g.instFor(contains, depth-1))
		case hasItems && r.Chance(4, 5):
			a = append(a, g.instFor(items, depth-1))
		default:
			a = append(a, genRandomInstance(r, 1))
		}
	}
	if v, ok := o.get("uniqueItems"); ok && v == true && len(a) > 0 && r.Chance(1, 2) {
		// a duplicate: identical, or equal only by value (1 vs 1.0, reordered members)
		d := a[r.Intn(len(a))]
		switch r.Intn(3) {
		case 1:
			d = toggleNumForm(r, d)
		case 2:
			if x, ok := d.(jobj); ok && len(x) > 1 {
				y := append(jobj{}, x...)
				y[0], y[len(y)-1] = y[len(y)-1], y[0]
				d = y
			}
		}
		a = append(a, d)
	}
	return a
}

func (g *schemaGen) objFor(o jobj, depth int) jv {
	r := g.r
	var cand []string
	props := jobj{}
	if v, ok := o.get("properties"); ok {
		if p, ok := v.(jobj); ok {
			props = p
			for _, e := range p {
				cand = append(cand, e.k)
			}
		}
	}
	if v, ok := o.get("required"); ok {
		if a, ok := v.([]jv); ok {
			for _, e := range a {
				if s, ok := e.(string); ok {
					cand = append(cand, s)
				}
			}
		}
	}
	pats := jobj{}
	if v, ok := o.get("patternProperties"); ok {
		if p, ok := v.(jobj); ok {
			pats = p
			for _, e := range p {
				cand = append(cand, g.strMatching(e.k, 1+r.Intn(2)))
			}
		}
	}
	if v, ok := o.get("propertyNames"); ok {
		if s, ok := g.instFor(v, 1).(string); ok {
			cand = append(cand, s)
		}
	}
	cand = append(cand, Pick(r, c13NamePool), Pick(r, c13NamePool))
	Shuffle(r, cand)
	n := r.Intn(4)
	var cnts []int
	for _, k := range []string{"minProperties", "maxProperties"} {
		if v, ok := o.get(k); ok {
			if m, ok := natOf(v); ok {
				cnts = append(cnts, m)
			}
		}
	}
	if len(cnts) > 0 {
		n = around(r, Pick(r, cnts))
	}
	addl, hasAddl := o.get("additionalProperties")
	out := jobj{}
	seen := map[string]bool{}
	for _, k := range cand {
		if len(out) >= n {
			break
		}
		if seen[k] {
			continue
		}
		seen[k] = true
		var val jv
		if ps, ok := props.get(k); ok && r.Chance(5, 6) {
			val = g.instFor(ps, depth-1)
		} else {
			val = nil
			matched := false
			for _, e := range pats {
				if c13PatternMatches(e.k, k) {
					val = g.instFor(e.v, depth-1)
					matched = true
					break
				}
			}
			if !matched {
				if hasAddl && r.Chance(4, 5) {
					val = g.instFor(addl, depth-1)
				} else {
					val = genRandomInstance(r, 1)
				}
			}
		}
		out = append(out, jkv{k, val})
	}
	return out
}

// ---- skeleton cases ----------------------------------------------------------------------

type skelCase struct {
	schema   jv
	allowed  int // 7-bit masks: null bool int float string list struct
	known    int
	presence int // base-4 digits per core type: number of type-specific constraints
	nAll     int
}

const (
	kNull = 1 << iota
	kBool
	kInt
	kFloat
	kString
	kList
	kStruct
)

func typeNameMask(t string) int {
	switch t {
	case "null":
		return kNull
	case "boolean":
		return kBool
	case "number":
		return kInt | kFloat
	case "integer":
		return kInt
	case "string":
		return kString
	case "array":
		return kList
	case "object":
		return kStruct
	}
	return 0
}

func valueMask(v jv) int {
	switch x := v.(type) {
	case nil:
		return kNull
	case bool:
		return kBool
	case jnum:
		if isIntLiteral(x) {
			return kInt
		}
		return kFloat
	case string:
		return kString
	case []jv:
		return kList
	case jobj:
		return kStruct
	}
	return 0
}

// genSkelCase builds a schema from `type`, `enum` and at most two keywords per kind, and
// computes — transcribing the mask arithmetic of constraintType / constraintEnum — the state
// that state.finalize will see.
func genSkelCase(r *Rng) *skelCase {
	sk := &skelCase{allowed: 127, known: 127}
	o := jobj{}
	var cnt [6]int
	var first []jkv // type / enum in random order (both phase 1, processed in field order)
	if r.Chance(3, 4) {
		var tv jv
		if r.Chance(1, 3) {
			tv = Pick(r, c13TypeNames)
		} else {
			names := append([]string{}, c13TypeNames...)
			Shuffle(r, names)
			a := []jv{}
			for i := 0; i < 1+r.Intn(4); i++ {
				a = append(a, names[i])
			}
			tv = a
		}
		first = append(first, jkv{"type", tv})
	}
	if r.Chance(1, 3) {
		pool := []jv{true, jnum("1"), jnum("1.5"), "a", jnum("2"), false, "b"}
		a := []jv{}
		for i := 0; i < 1+r.Intn(3); i++ {
			a = append(a, Pick(r, pool))
		}
		first = append(first, jkv{"enum", a})
	}
	Shuffle(r, first)
	for _, e := range first {
		o = append(o, e)
		switch e.k {
		case "type":
			m := 0
			var names []jv
			if s, ok := e.v.(string); ok {
				names = []jv{s}
			} else {
				names = e.v.([]jv)
			}
			for _, n := range names {
				m |= typeNameMask(n.(string))
				if n == "integer" {
					cnt[2]++
				}
			}
			sk.allowed &= m
		case "enum":
			types := 0
			kept := 0
			for _, x := range e.v.([]jv) {
				if sk.allowed&valueMask(x) == 0 {
					continue
				}
				kept++
				types |= valueMask(x)
			}
			sk.known &= types
			sk.allowed &= types
			if kept > 0 {
				sk.nAll++
			}
		}
	}
	kws := [][]jkv{
		2: {{"minimum", jnum("1")}, {"maximum", jnum("5")}},
		3: {{"minLength", jnum("1")}, {"maxLength", jnum("3")}},
		4: {{"minItems", jnum("1")}, {"maxItems", jnum("3")}},
		5: {{"minProperties", jnum("1")}, {"maxProperties", jnum("3")}},
	}
	for t := 2; t <= 5; t++ {
		if r.Chance(1, 3) {
			k := 1
			if r.Chance(1, 3) {
				k = 2
			}
			for i := 0; i < k; i++ {
				o = append(o, kws[t][i])
				cnt[t]++
			}
		}
	}
	for t := 0; t < 6; t++ {
		c := cnt[t]
		if c > 3 {
			c = 3
		}
		p := 1
		for i := 0; i < t; i++ {
			p *= 4
		}
		sk.presence += c * p
	}
	for _, c := range cnt {
		if c > 3 {
			// more constraints than the protocol encodes: regenerate
			return genSkelCase(r)
		}
	}
	// nest under a property so that an empty allowed set (error("disallowed")) is observable
	sk.schema = jobj{{"type", "object"}, {"properties", jobj{{"p", o}}}}
	return sk
}
