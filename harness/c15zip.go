package main

// C15 part 2: archives (valid and forged), Unzip with a canary tree, directories, round trips.

import (
	"archive/zip"
	"bytes"
	"fmt"
	"hash/crc32"
	"io"
	"io/fs"
	"os"
	"path/filepath"
	"sort"
	"strings"
	"sync"
	"time"

	"cuelang.org/go/mod/module"
	"cuelang.org/go/mod/modzip"
)

var c15Mod = module.MustNewVersion("example.com/m@v0", "v0.0.1")

// one entry of a (possibly forged) archive
type c15ZEnt struct {
	name     string
	content  []byte // bytes stored (method Store) or deflated
	declared uint64 // UncompressedSize64 written to the header
	deflate  bool
	mode     fs.FileMode // 0 = none
	badCRC   bool
}

func c15BuildZip(ents []c15ZEnt) ([]byte, error) {
	var buf bytes.Buffer
	zw := zip.NewWriter(&buf)
	for _, e := range ents {
		honest := e.declared == uint64(len(e.content)) && !e.badCRC && !(strings.HasSuffix(e.name, "/") && len(e.content) > 0)
		if honest && e.mode == 0 {
			fh := &zip.FileHeader{Name: e.name, Method: zip.Store}
			if e.deflate {
				fh.Method = zip.Deflate
			}
			w, err := zw.CreateHeader(fh)
			if err != nil {
				return nil, err
			}
			if _, err := w.Write(e.content); err != nil {
				return nil, err
			}
			continue
		}
		// raw header: nothing is normalised by the writer
		crc := crc32.ChecksumIEEE(e.content)
		if e.badCRC {
			crc ^= 0x5a5a5a5a
		}
		fh := &zip.FileHeader{Name: e.name, Method: zip.Store, CRC32: crc,
			CompressedSize64: uint64(len(e.content)), UncompressedSize64: e.declared}
		if e.mode != 0 {
			fh.SetMode(e.mode)
		}
		if strings.HasSuffix(e.name, "/") { // the writer refuses data for directory names
			fh.CRC32, fh.CompressedSize64 = 0, 0
			e.content = nil
		}
		w, err := zw.CreateRaw(fh)
		if err != nil {
			return nil, err
		}
		if _, err := w.Write(e.content); err != nil {
			return nil, err
		}
	}
	if err := zw.Close(); err != nil {
		return nil, err
	}
	return buf.Bytes(), nil
}

// c15Observe reads the archive with archive/zip (the container parameter of the model) and
// returns the model's entry words: name, declared, openErr, bytes delivered, stream error.
type c15Obs struct {
	name      string
	declared  uint64
	openErr   bool
	data      []byte
	streamErr bool
}

type c15Counter struct{ buf []byte }

func (w *c15Counter) Write(b []byte) (int, error) { w.buf = append(w.buf, b...); return len(b), nil }

func c15Observe(data []byte) ([]c15Obs, error) {
	z, err := zip.NewReader(bytes.NewReader(data), int64(len(data)))
	if err != nil {
		return nil, err
	}
	var out []c15Obs
	for _, zf := range z.File {
		o := c15Obs{name: zf.Name, declared: zf.UncompressedSize64}
		if !(zf.Name == "" || strings.HasSuffix(zf.Name, "/")) {
			rc, err := zf.Open()
			if err != nil {
				o.openErr = true
			} else {
				var w c15Counter
				_, err := io.Copy(&w, rc) // same buffer discipline as Unzip's io.Copy
				rc.Close()
				o.data = w.buf
				o.streamErr = err != nil
			}
		}
		out = append(out, o)
	}
	return out, nil
}

func c15ZipWords(obs []c15Obs, full bool) (string, []string) {
	var ws, names []string
	for _, o := range obs {
		names = append(names, o.name)
		if full {
			b := func(x bool) int {
				if x {
					return 1
				}
				return 0
			}
			ws = append(ws, fmt.Sprintf("%s,%d,%d,%d,%d", H(o.name), o.declared, b(o.openErr), len(o.data), b(o.streamErr)))
		} else {
			ws = append(ws, fmt.Sprintf("%s,%d", H(o.name), o.declared))
		}
	}
	return strings.Join(ws, " "), names
}

// ---- file-system snapshots -----------------------------------------------------------------

type c15Node struct {
	mode fs.FileMode // type bits only
	size int64
	data string // content for small files
}

func c15Snapshot(root string) map[string]c15Node {
	m := map[string]c15Node{}
	filepath.WalkDir(root, func(p string, d fs.DirEntry, err error) error {
		if err != nil {
			m[p] = c15Node{mode: fs.ModeIrregular}
			return nil
		}
		info, err := os.Lstat(p)
		if err != nil {
			return nil
		}
		n := c15Node{mode: info.Mode().Type(), size: info.Size()}
		if info.Mode().IsRegular() && info.Size() <= 1<<16 {
			b, _ := os.ReadFile(p)
			n.data = string(b)
		}
		if info.IsDir() {
			n.size = 0
		}
		rel, _ := filepath.Rel(root, p)
		m[rel] = n
		return nil
	})
	return m
}

// c15Scratch is a scratch root with canaries around a target directory four levels down.
type c15Scratch struct {
	root, target string
	before       map[string]c15Node
}

func c15NewScratch(base string, id int, r *Rng) (*c15Scratch, error) {
	root := filepath.Join(base, fmt.Sprintf("s%d", id))
	targetParent := filepath.Join(root, "w", "x", "y")
	if err := os.MkdirAll(targetParent, 0o777); err != nil {
		return nil, err
	}
	for _, f := range []string{"canary.txt", "w/canary.txt", "w/x/canary.txt", "w/x/y/canary.txt", "w/x/y/t-sibling/keep.txt", "a", "cue.mod/module.cue"} {
		p := filepath.Join(root, f)
		os.MkdirAll(filepath.Dir(p), 0o777)
		if err := os.WriteFile(p, []byte("canary:"+f), 0o666); err != nil {
			return nil, err
		}
	}
	s := &c15Scratch{root: root, target: filepath.Join(targetParent, "t")}
	if r.Chance(1, 3) { // target may exist (empty) or not
		os.Mkdir(s.target, 0o777)
	}
	s.before = c15Snapshot(root)
	return s, nil
}

const c15TargetRel = "w/x/y/t"

// check compares the tree with the snapshot: nothing outside the target changed; inside the
// target only directories and regular files.  Returns the files under the target.
func (s *c15Scratch) check() (outsideOK bool, onlyRegular bool, files map[string]c15Node, dirs []string, what string) {
	after := c15Snapshot(s.root)
	outsideOK, onlyRegular = true, true
	files = map[string]c15Node{}
	for p, n := range after {
		if p == c15TargetRel {
			if !n.mode.IsDir() {
				outsideOK = false
				what = "target is not a directory"
			}
			continue
		}
		if strings.HasPrefix(p, c15TargetRel+"/") {
			rel := p[len(c15TargetRel)+1:]
			switch {
			case n.mode.IsDir():
				dirs = append(dirs, rel)
			case n.mode.IsRegular():
				files[rel] = n
			default:
				onlyRegular = false
				what = "irregular file " + rel
			}
			continue
		}
		if b, ok := s.before[p]; !ok || b != n {
			outsideOK = false
			what = "changed outside target: " + p
		}
	}
	for p := range s.before {
		if _, ok := after[p]; !ok && p != c15TargetRel && !strings.HasPrefix(p, c15TargetRel+"/") {
			outsideOK = false
			what = "removed outside target: " + p
		}
	}
	sort.Strings(dirs)
	return
}

// ---- CheckZip / Unzip on one archive -----------------------------------------------------

type c15ZipResult struct {
	cf       modzip.CheckedFiles
	checkErr error
	unzipErr error
}

func c15ZipCase(c *Cfg, base string, id int, r *Rng, ents []c15ZEnt, tag string) {
	data, err := c15BuildZip(ents)
	if err != nil {
		c.Count("zip/build-error: " + err.Error())
		return
	}
	obs, err := c15Observe(data)
	if err != nil {
		c.Count("zip/newreader-error")
		return
	}
	full, names := c15ZipWords(obs, true)
	short, _ := c15ZipWords(obs, false)
	u := c15Uni(names...)
	_, _, cf, cerr := modzip.CheckZip(c15Mod, bytes.NewReader(data), int64(len(data)))
	c.Op("O", fmt.Sprintf("checkzip %s %d %s", u, len(data), short), c15ShowChecked(cf))
	if !c.Focus {
		c.Op("I", fmt.Sprintf("checkzipwhy %s %d %s", u, len(data), short), c15ShowWhy(cf))
	}
	c.Direct(c15ValidSetOK(cf.Valid), "valid-set-unsafe", "CheckZip reported an unsafe or colliding valid set", names)
	for _, e := range cf.Invalid {
		c.Count("zip/invalid/" + c15WhyKind(e.Err))
	}
	c.Count(fmt.Sprintf("zip/%s checkerr=%v", tag, cerr != nil))

	// Unzip into a scratch tree with canaries
	s, err := c15NewScratch(base, id, r)
	if err != nil {
		c.Count("zip/scratch-error")
		return
	}
	defer os.RemoveAll(s.root)
	zipPath := filepath.Join(base, fmt.Sprintf("z%d.zip", id))
	if err := os.WriteFile(zipPath, data, 0o666); err != nil {
		return
	}
	defer os.Remove(zipPath)
	uerr := func() (err error) {
		defer func() {
			if p := recover(); p != nil {
				err = fmt.Errorf("panic: %v", p)
				c.Direct(false, "unzip-panic", fmt.Sprint(p), names)
			}
		}()
		return modzip.Unzip(s.target, c15Mod, zipPath)
	}()
	outsideOK, onlyRegular, files, dirs, what := s.check()
	replay := map[string]any{"entries": full, "unzip_err": fmt.Sprint(uerr), "what": what}
	c.Direct(outsideOK, "unzip-escape", "Unzip changed the file system outside its target directory: "+what, replay)
	c.Direct(onlyRegular, "unzip-irregular", "Unzip created something that is not a regular file or directory: "+what, replay)
	// per file: some non-directory entry has that name, the content is a prefix of what the
	// entry's reader delivers and never longer than declared
	byName := map[string][]c15Obs{}
	for _, o := range obs {
		byName[o.name] = append(byName[o.name], o)
	}
	sizesOK, contentOK := true, true
	for rel, n := range files {
		os_, ok := byName[rel]
		if !ok {
			contentOK = false
			what = "file without an entry: " + rel
			continue
		}
		match := false
		for _, o := range os_ {
			if uint64(n.size) <= o.declared && n.size <= int64(len(o.data)) && (n.size > 1<<16 || n.data == string(o.data[:n.size])) {
				match = true
			}
		}
		if !match {
			sizesOK = false
			what = fmt.Sprintf("file %s has %d bytes, more than declared or different from the entry", rel, n.size)
		}
	}
	c.Direct(contentOK, "unzip-stray-file", "Unzip wrote a file no entry names: "+what, replay)
	c.Direct(sizesOK, "unzip-oversize", "Unzip wrote more bytes than declared / other content: "+what, replay)
	if uerr == nil {
		// success: exactly the non-directory entries, with exactly their content, and the archive passes the checks
		ok := cerr == nil
		n := 0
		for _, o := range obs {
			if o.name == "" || strings.HasSuffix(o.name, "/") {
				continue
			}
			n++
			f, have := files[o.name]
			if !have || uint64(f.size) != o.declared || o.streamErr || o.openErr || (f.size <= 1<<16 && f.data != string(o.data)) {
				ok = false
			}
		}
		c.Direct(ok && n == len(files), "unzip-success-mismatch", "Unzip succeeded but the tree is not exactly the archive's files", replay)
	}
	// model: the same archive, the same container behaviour
	var fw []string
	for rel, n := range files {
		fw = append(fw, fmt.Sprintf("%s:%d", H(rel), n.size))
	}
	sort.Strings(fw)
	for i := range dirs {
		dirs[i] = H(dirs[i])
	}
	sort.Strings(dirs)
	j := func(xs []string) string {
		if len(xs) == 0 {
			return "."
		}
		return strings.Join(xs, ",")
	}
	verdict := "ok"
	if uerr != nil {
		verdict = "fail"
	}
	outside := 0
	if !outsideOK {
		outside = 1
	}
	if c15NamesFit(names) {
		c.Op("O", fmt.Sprintf("unzip %s %d %s", u, len(data), full),
			fmt.Sprintf("%s files=%s dirs=%s outside=%d", verdict, j(fw), j(dirs), outside))
	} else {
		c.Count("unzip/name-too-long-for-host (model op skipped, direct predicates kept)")
	}
	c15AgreeZip(c, obs, cf, cerr, s.target, uerr)
	c.Trace()
	c.Case("zip "+full, len(obs) >= 2)
	c.Count(fmt.Sprintf("unzip/%s ok=%v files=%d", tag, uerr == nil, min(len(files), 3)))
}

// ---- archive generators ----------------------------------------------------------------------

func c15ZipFromFiles(r *Rng, fsz []c15File) []c15ZEnt {
	var ents []c15ZEnt
	for _, f := range fsz {
		n := f.size
		if n < 0 || n > 4096 {
			n = int64(r.Intn(64))
		}
		name := f.path
		if f.kind == 'd' {
			name += "/"
			n = 0
		}
		e := c15ZEnt{name: name, content: c15ContentBytes(f.path, n), declared: uint64(n), deflate: r.Bool()}
		if f.kind == 'l' {
			e.mode = fs.ModeSymlink | 0o777
			e.content = []byte("../../canary.txt")
			e.declared = uint64(len(e.content))
		}
		if f.kind == 'o' {
			e.mode = fs.ModeNamedPipe | 0o644
		}
		ents = append(ents, e)
	}
	return ents
}

func c15ValidModule(r *Rng) []c15ZEnt {
	ents := []c15ZEnt{{name: "cue.mod/module.cue", content: []byte("module: \"example.com/m@v0\"\nlanguage: version: \"v0.9.0\"\n")}}
	seen := map[string]bool{"cue.mod/module.cue": true, "cue.mod": true}
	n := 1 + r.Intn(5)
	for i := 0; i < n; i++ {
		p := c15Path(r, 0)
		k := strings.ToLower(p)
		if seen[k] {
			continue
		}
		seen[k] = true
		ents = append(ents, c15ZEnt{name: p, content: c15ContentBytes(p, int64(r.Intn(300))), deflate: r.Bool()})
	}
	for i := range ents {
		ents[i].declared = uint64(len(ents[i].content))
	}
	return ents
}

// c15Mutate applies one header/name mutation to an archive.
func c15Mutate(r *Rng, ents []c15ZEnt) ([]c15ZEnt, string) {
	ents = append([]c15ZEnt{}, ents...)
	i := r.Intn(len(ents))
	e := ents[i]
	extra := func(name string) c15ZEnt {
		b := c15ContentBytes(name, int64(r.Intn(40)))
		return c15ZEnt{name: name, content: b, declared: uint64(len(b))}
	}
	kind := Pick(r, []string{"abs", "dotdot", "backslash", "symlink", "irregular", "dup", "case", "declared-less", "declared-more",
		"declared-huge", "badcrc", "bigmod", "biglicense", "nested-cuemod", "local-module", "vendored", "file-dir", "dir-entry",
		"trailing", "hostile-name", "total", "empty-name", "drive", "dot", "moddir", "nomod", "bigtotal2"})
	switch kind {
	case "abs":
		ents = append(ents, extra("/"+Pick(r, []string{"abs.txt", "tmp/C15-abs", "etc/passwd"})))
	case "dotdot":
		ents = append(ents, extra(strings.Repeat("../", 1+r.Intn(3))+Pick(r, []string{"new.txt", "canary.txt", "t-sibling/new.txt", "w/new"})))
	case "backslash":
		ents = append(ents, extra(Pick(r, []string{`..\new.txt`, `a\..\..\new.txt`, `\abs.txt`, `a\b`, `..\..\canary.txt`})))
	case "symlink":
		e.mode = fs.ModeSymlink | 0o777
		e.content = []byte(Pick(r, []string{"../../canary.txt", "/etc/passwd", ".."}))
		e.declared = uint64(len(e.content))
		ents[i] = e
		if r.Bool() {
			ents = append(ents, extra(e.name+"/through-link.txt"))
		}
	case "irregular":
		e.mode = Pick(r, []fs.FileMode{fs.ModeNamedPipe, fs.ModeDevice, fs.ModeSocket, fs.ModeDir, fs.ModeCharDevice | fs.ModeDevice}) | 0o644
		ents[i] = e
	case "dup":
		ents = append(ents, extra(e.name))
	case "case":
		ents = append(ents, extra(c15CaseMutate(r, e.name)))
	case "declared-less":
		if len(e.content) == 0 {
			e.content = []byte("xyz")
		}
		e.declared = uint64(r.Intn(len(e.content)))
		e.deflate = false
		ents[i] = e
	case "declared-more":
		e.declared = uint64(len(e.content) + 1 + r.Intn(5))
		ents[i] = e
	case "declared-huge":
		e.declared = Pick(r, []uint64{1 << 63, 1<<64 - 1, 1<<63 - 1, 1 << 32, 1<<32 - 1, uint64(c15MaxZip) + 1})
		ents[i] = e
	case "badcrc":
		e.badCRC = true
		ents[i] = e
	case "bigmod":
		for k := range ents {
			if ents[k].name == "cue.mod/module.cue" {
				ents[k].declared = uint64(c15MaxMod + int64(r.Intn(3)) - 1)
			}
		}
	case "biglicense":
		l := extra(Pick(r, []string{"LICENSE", "LICENSE", "sub/LICENSE", "license"}))
		l.declared = uint64(c15MaxLic + int64(r.Intn(3)) - 1)
		ents = append(ents, l)
	case "nested-cuemod":
		ents = append(ents, extra(Pick(r, []string{"sub/cue.mod/module.cue", "sub/cue.mod", "sub/CUE.MOD/x.cue", "cue.mod/cue.mod/x", "a/b/cue.mod/pkg/x.cue", "sub/\u212aue.mod/x"})))
	case "local-module":
		ents = append(ents, extra(Pick(r, []string{"cue.mod/local-module.cue", "cue.mod/local-module.cue", "cue.mod/Local-module.cue", "sub/cue.mod/local-module.cue", "cue.mod/local-module.cue/"})))
	case "vendored":
		ents = append(ents, extra(Pick(r, []string{"cue.mod/vendor/x.cue", "cue.mod/vendor/cue.mod/local-module.cue", "cue.mod/pkg/x.cue", "cue.mod/usr/y.cue", "cue.mod/gen/z.cue", ".hg_archival.txt"})))
	case "file-dir":
		ents = append(ents, extra(e.name+"/"+c15ValidElem(r)))
	case "dir-entry":
		d := Pick(r, []string{"sub/", "cue.mod/", "a/b/", e.name + "/", "../", "/", "./", "cue.mod/module.cue/", "CUE.MOD/"})
		ents = append(ents, c15ZEnt{name: d})
	case "trailing":
		ents = append(ents, extra(Pick(r, []string{"a.", "a /b", "d./x", "x/", "x//y", "./x", "x/./y", "x/../y", " "})))
	case "hostile-name":
		ents = append(ents, extra(c15Path(r, 8)))
	case "total":
		// declared sizes adding up to the limit ±1 (content tiny: the stream ends early)
		var sum uint64
		for _, x := range ents {
			sum += x.declared
		}
		a := extra("big.bin")
		a.declared = uint64(c15MaxZip) - sum + uint64(r.Intn(3)) - 1
		ents = append(ents, a)
	case "bigtotal2":
		a, b := extra("big1.bin"), extra("big2.bin")
		a.declared = uint64(c15MaxZip) - 1000
		b.declared = uint64(900 + r.Intn(200))
		ents = append(ents, a, b)
	case "empty-name":
		ents = append(ents, extra(""))
	case "drive":
		ents = append(ents, extra(Pick(r, []string{"C:/x", "C:x", "c:\\x", "x:y", "a/NUL", "aux.txt/x", "COM1"})))
	case "dot":
		ents = append(ents, extra(Pick(r, []string{".", "..", "a/..", "...", "a/.../b"})))
	case "moddir":
		for k := range ents {
			if ents[k].name == "cue.mod/module.cue" {
				ents[k] = c15ZEnt{name: Pick(r, []string{"cue.mod/module.cue/", "cue.mod/MODULE.CUE", "Cue.mod/module.cue", "cue.mod", "CUE.MOD"})}
			}
		}
	case "nomod":
		var out []c15ZEnt
		for _, x := range ents {
			if x.name != "cue.mod/module.cue" {
				out = append(out, x)
			}
		}
		if len(out) > 0 {
			ents = out
		}
	}
	if r.Chance(1, 4) {
		Shuffle(r, ents)
	}
	return ents, kind
}

// c15Par runs n cases on a pool of workers; each case gets its own pre-derived generator,
// so the set of cases does not depend on scheduling.
func c15Par(r *Rng, n int, f func(i int, rr *Rng)) {
	subs := make([]*Rng, n)
	for i := range subs {
		subs[i] = r.Sub()
	}
	var wg sync.WaitGroup
	ch := make(chan int)
	for w := 0; w < 12; w++ {
		wg.Add(1)
		go func() {
			defer wg.Done()
			for i := range ch {
				f(i, subs[i])
			}
		}()
	}
	for i := 0; i < n; i++ {
		ch <- i
	}
	close(ch)
	wg.Wait()
}

func c15ZipCases(c *Cfg, r *Rng, base string) {
	n := c.Pick(1500, 20000)
	c15Par(r, n, func(i int, rr *Rng) {
		id := i + 1
		var ents []c15ZEnt
		tag := "valid"
		switch rr.Intn(10) {
		case 0:
			ents = c15ValidModule(rr)
		case 1, 2:
			ents = c15ZipFromFiles(rr, c15FileSet(rr, 1+rr.Intn(5), false))
			tag = "fileset"
		default:
			ents = c15ValidModule(rr)
			k := 1
			if rr.Chance(1, 5) {
				k = 2
			}
			for ; k > 0; k-- {
				ents, tag = c15Mutate(rr, ents)
			}
		}
		c15ZipCase(c, base, id, rr, ents, tag)
	})
}

// ---- Create → CheckZip → Unzip round trips --------------------------------------------------------

func c15RoundTrip(c *Cfg, base string, id int, r *Rng, fsz []c15File) {
	var words, paths []string
	// Create sorts its input by path first (pinned); the model takes the sorted list
	sorted := append([]c15File{}, fsz...)
	sort.SliceStable(sorted, func(i, j int) bool { return sorted[i].path < sorted[j].path })
	for _, f := range sorted {
		words = append(words, fmt.Sprintf("%s,%d", c15FEntWord(f), f.contentLen()))
		paths = append(paths, f.path)
	}
	cf, _ := modzip.CheckFiles(sorted, c15FIO{})
	var buf bytes.Buffer
	cerr := modzip.Create(&buf, c15Mod, fsz, c15FIO{})
	ans := "fail"
	var obs []c15Obs
	if cerr == nil {
		var err error
		obs, err = c15Observe(buf.Bytes())
		if err != nil {
			c.Direct(false, "create-unreadable", "Create wrote an archive archive/zip cannot read", paths)
			return
		}
		var ws []string
		for _, o := range obs {
			ws = append(ws, fmt.Sprintf("%s:%d", H(o.name), o.declared))
		}
		ans = "ok ."
		if len(ws) > 0 {
			ans = "ok " + strings.Join(ws, ",")
		}
	}
	// Create sorts its input first (the order of entries in the archive is not part of the
	// property): compare as sets by sorting both sides
	c.Op("O", "create "+c15Uni(paths...)+" "+strings.Join(words, " "), ans)
	c15CreateFullOp(c, fsz, ans)
	c.Count(fmt.Sprintf("create/ok=%v", cerr == nil))
	c.Case("create "+strings.Join(words, " "), cerr == nil && len(obs) >= 2)
	if cerr != nil {
		return
	}
	data := buf.Bytes()
	replay := map[string]any{"files": words}
	// every archive the creator emits passes the archive checks, with the same valid set
	_, _, zcf, zerr := modzip.CheckZip(c15Mod, bytes.NewReader(data), int64(len(data)))
	v1 := append([]string{}, cf.Valid...)
	v2 := append([]string{}, zcf.Valid...)
	sort.Strings(v1)
	sort.Strings(v2)
	c.Direct(zerr == nil && strings.Join(v1, "\x00") == strings.Join(v2, "\x00"), "create-fails-checkzip",
		fmt.Sprintf("an archive written by Create does not pass CheckZip with the same valid set: %v", zerr), replay)
	// extraction reproduces exactly the valid files with identical content
	s, err := c15NewScratch(base, id, r)
	if err != nil {
		return
	}
	defer os.RemoveAll(s.root)
	zipPath := filepath.Join(base, fmt.Sprintf("rt%d.zip", id))
	os.WriteFile(zipPath, data, 0o666)
	defer os.Remove(zipPath)
	uerr := modzip.Unzip(s.target, c15Mod, zipPath)
	outsideOK, onlyRegular, files, _, what := s.check()
	ok := uerr == nil && outsideOK && onlyRegular && len(files) == len(cf.Valid)
	byPath := map[string]c15File{}
	for _, f := range fsz {
		if _, dup := byPath[f.path]; !dup || f.kind == 'f' {
			byPath[f.path] = f
		}
	}
	for _, p := range cf.Valid {
		n, have := files[p]
		f := byPath[p]
		if !have || n.size != f.contentLen() {
			ok = false
			what = "missing or wrong size: " + p
			continue
		}
		if n.size <= 1<<16 && n.data != string(c15ContentBytes(p, n.size)) {
			ok = false
			what = "content differs: " + p
		}
	}
	replay["what"] = what
	replay["unzip_err"] = fmt.Sprint(uerr)
	if !c15NamesFit(cf.Valid) {
		// the host cannot hold the name (NAME_MAX); confinement was still checked
		c.Direct(outsideOK && onlyRegular, "unzip-escape", "Unzip changed the file system outside its target directory: "+what, replay)
		c.Count("roundtrip/name-too-long-for-host")
		return
	}
	c.Direct(ok, "roundtrip", "Create → Unzip does not reproduce exactly the valid files: "+what, replay)
	c.Trace()
}

func c15RoundTripCases(c *Cfg, r *Rng, base string) {
	n := c.Pick(800, 10000)
	c15Par(r, n, func(i int, rr *Rng) {
		fsz := c15FileSet(rr, rr.Intn(3), false)
		if rr.Chance(1, 10) {
			// a file that delivers more or fewer bytes than Lstat declared
			k := rr.Intn(len(fsz))
			fsz[k].clen = fsz[k].size + int64(rr.Intn(3)) - 1
			if fsz[k].clen < 0 {
				fsz[k].clen = 0
			}
		}
		c15RoundTrip(c, base, 100000+i, rr, fsz)
	})
	// the two 16 MiB limits with real content (zeros compress fast)
	big := [][]c15File{
		{{path: "cue.mod/module.cue", kind: 'f', size: c15MaxMod, clen: -1}, {path: "a.cue", kind: 'f', size: 3, clen: -1}},
		{{path: "cue.mod/module.cue", kind: 'f', size: c15MaxMod + 1, clen: -1}},
		{{path: "cue.mod/module.cue", kind: 'f', size: 10, clen: -1}, {path: "LICENSE", kind: 'f', size: c15MaxLic, clen: -1}},
		{{path: "cue.mod/module.cue", kind: 'f', size: 10, clen: -1}, {path: "LICENSE", kind: 'f', size: c15MaxLic + 1, clen: -1}},
	}
	for i, fsz := range big {
		c15RoundTripBig(c, base, 200000+i, r.Sub(), fsz)
	}
	if c.Thorough() {
		// the 500 MiB total, once at the limit and once above
		for i, d := range []int64{0, 1} {
			fsz := []c15File{{path: "cue.mod/module.cue", kind: 'f', size: 10, clen: -1}, {path: "big.bin", kind: 'f', size: c15MaxZip - 10 + d, clen: -1}}
			c15RoundTripBig(c, base, 300000+i, r.Sub(), fsz)
		}
	}
}

// c15RoundTripBig: like c15RoundTrip but without sending the (large) case to the model as a
// create op with content; sizes are compared directly.
func c15RoundTripBig(c *Cfg, base string, id int, r *Rng, fsz []c15File) {
	cf, cfErr := modzip.CheckFiles(fsz, c15FIO{})
	zipPath := filepath.Join(base, fmt.Sprintf("big%d.zip", id))
	f, err := os.Create(zipPath)
	if err != nil {
		return
	}
	defer os.Remove(zipPath)
	cerr := modzip.Create(f, c15Mod, fsz, c15FIO{})
	f.Close()
	var words []string
	for _, x := range fsz {
		words = append(words, c15FEntWord(x))
	}
	c.Direct((cerr == nil) == (cfErr == nil), "create-vs-checkfiles", "Create and CheckFiles disagree on acceptance", words)
	c.Count(fmt.Sprintf("create-big/ok=%v", cerr == nil))
	if cerr != nil {
		return
	}
	s, err := c15NewScratch(base, id, r)
	if err != nil {
		return
	}
	defer os.RemoveAll(s.root)
	uerr := modzip.Unzip(s.target, c15Mod, zipPath)
	outsideOK, onlyRegular, files, _, what := s.check()
	ok := uerr == nil && outsideOK && onlyRegular && len(files) == len(cf.Valid)
	for _, x := range fsz {
		if n, have := files[x.path]; !have || n.size != x.size {
			ok = false
		}
	}
	c.Direct(ok, "roundtrip", "Create → Unzip at a size limit does not reproduce the files: "+what+" "+fmt.Sprint(uerr), words)
	c.Trace()
}

// ---- directories: CheckDir / CreateFromDir versus the file list ------------------------------------

func c15DirCase(c *Cfg, base string, id int, r *Rng) {
	root := filepath.Join(base, fmt.Sprintf("d%d", id))
	os.MkdirAll(root, 0o777)
	defer os.RemoveAll(root)
	fsz := c15FileSet(r, 1+r.Intn(4), r.Chance(1, 4))
	made := map[string]bool{}
	for _, f := range fsz {
		p := f.path
		// only names the host file system can hold
		if p == "" || strings.ContainsAny(p, "\x00") || strings.HasPrefix(p, "/") || strings.HasSuffix(p, "/") || !c15HostOK(p) {
			continue
		}
		full := filepath.Join(root, filepath.FromSlash(p))
		if made[full] {
			continue
		}
		if err := os.MkdirAll(filepath.Dir(full), 0o777); err != nil {
			continue
		}
		switch f.kind {
		case 'd':
			os.MkdirAll(full, 0o777)
		case 'l':
			os.Symlink("../canary", full)
		default:
			fh, err := os.OpenFile(full, os.O_CREATE|os.O_EXCL|os.O_WRONLY, 0o666)
			if err != nil {
				continue
			}
			sz := f.size
			if sz < 0 {
				sz = 0
			}
			if sz > 1<<20 {
				fh.Truncate(sz) // sparse
			} else {
				io.Copy(fh, c15Content(p, sz))
			}
			fh.Close()
		}
		made[full] = true
	}
	if r.Chance(1, 4) {
		vcs := filepath.Join(root, Pick(r, []string{".git", "sub/.hg", ".svn", "a/.bzr"}))
		os.MkdirAll(vcs, 0o777)
		os.WriteFile(filepath.Join(root, ".git", "config"), []byte("x"), 0o666)
		// a regular file inside the VCS directory: not pruning it becomes observable
		os.WriteFile(filepath.Join(vcs, "x.cue"), []byte("vcs"), 0o666)
	}
	// our own listing: regular files outside VCS directories, as (slash path, size)
	var list []c15File
	var tree []string // everything in the tree, for the replay
	filepath.WalkDir(root, func(p string, d fs.DirEntry, err error) error {
		if err != nil || p == root {
			return nil
		}
		if r, err := filepath.Rel(root, p); err == nil {
			tree = append(tree, fmt.Sprintf("%s %q", d.Type().String(), filepath.ToSlash(r)))
		}
		if d.IsDir() {
			switch d.Name() {
			case ".bzr", ".git", ".hg", ".svn":
				return filepath.SkipDir
			}
			return nil
		}
		if !d.Type().IsRegular() {
			return nil
		}
		info, err := d.Info()
		if err != nil {
			return nil
		}
		rel, _ := filepath.Rel(root, p)
		list = append(list, c15File{path: filepath.ToSlash(rel), kind: 'f', size: info.Size(), clen: -1})
		return nil
	})
	dcf, _ := modzip.CheckDir(root)
	c15DirOps(c, root, dcf)
	lcf := c15CheckFilesOps(c, list)
	rel := func(ps []string) []string {
		out := make([]string, len(ps))
		for i, p := range ps {
			x, _ := filepath.Rel(root, p)
			out[i] = filepath.ToSlash(x)
		}
		sort.Strings(out)
		return out
	}
	inv := func(es []modzip.FileError, strip bool) []string {
		var out []string
		for _, e := range es {
			out = append(out, e.Path)
		}
		if strip {
			return rel(out)
		}
		sort.Strings(out)
		return out
	}
	lv := append([]string{}, lcf.Valid...)
	sort.Strings(lv)
	same := strings.Join(rel(dcf.Valid), "\x00") == strings.Join(lv, "\x00") &&
		strings.Join(inv(dcf.Invalid, true), "\x00") == strings.Join(inv(lcf.Invalid, false), "\x00") &&
		(dcf.SizeError != nil) == (lcf.SizeError != nil) && (dcf.NoModError != nil) == (lcf.NoModError != nil)
	var words []string
	for _, f := range list {
		words = append(words, c15FEntWord(f))
	}
	class := "dir-vs-list"
	if !same {
		// known finding: the directory walk skipped a directory as a nested module
		// (it holds an entry named cue.mod) but the file-list check did not omit all of its
		// files.  Only when EVERY difference lies beneath such a skipped directory.
		var skipped []string
		for _, e := range dcf.Omitted {
			if c15WhyKind(e.Err) == "submoduledir" {
				x, _ := filepath.Rel(root, e.Path)
				skipped = append(skipped, filepath.ToSlash(x)+"/")
			}
		}
		under := func(p string) bool {
			for _, d := range skipped {
				if strings.HasPrefix(p, d) {
					return true
				}
			}
			return false
		}
		explained := len(skipped) > 0
		diff := func(a, b []string) {
			m := map[string]bool{}
			for _, x := range b {
				m[x] = true
			}
			for _, x := range a {
				if !m[x] && !under(x) {
					explained = false
				}
			}
		}
		dv, di, li := rel(dcf.Valid), inv(dcf.Invalid, true), inv(lcf.Invalid, false)
		diff(dv, lv)
		diff(lv, dv)
		diff(di, li)
		diff(li, di)
		if (dcf.SizeError != nil) != (lcf.SizeError != nil) {
			// a size difference is explained only if the skipped files account for it: the
			// directory side must be the one without the error
			if dcf.SizeError != nil {
				explained = false
			}
		}
		if (dcf.NoModError != nil) != (lcf.NoModError != nil) && !(dcf.NoModError != nil && under("cue.mod/module.cue")) {
			explained = false
		}
		if explained {
			class = "dir-vs-list-nested-cuemod"
		}
	}
	c.Direct(same, class, "CheckDir and CheckFiles on the same regular files disagree (valid / invalid / size / nomod)",
		map[string]any{"files": words, "tree": tree, "dir_valid": rel(dcf.Valid), "list_valid": lv, "dir_invalid": inv(dcf.Invalid, true), "list_invalid": inv(lcf.Invalid, false)})
	c.Count(fmt.Sprintf("dir/valid=%d err=%v", min(len(dcf.Valid), 4), dcf.Err() != nil))
	// CreateFromDir → Unzip reproduces the valid files (small trees only)
	var total int64
	for _, f := range list {
		total += f.size
	}
	if dcf.Err() != nil || total > 1<<22 {
		return
	}
	zipPath := filepath.Join(base, fmt.Sprintf("dz%d.zip", id))
	zf, err := os.Create(zipPath)
	if err != nil {
		return
	}
	defer os.Remove(zipPath)
	cerr := modzip.CreateFromDir(zf, c15Mod, root)
	zf.Close()
	if cerr != nil {
		c.Direct(false, "createfromdir-fails", "CheckDir accepted the directory but CreateFromDir failed: "+cerr.Error(), words)
		return
	}
	s, err := c15NewScratch(base, id+500000, r)
	if err != nil {
		return
	}
	defer os.RemoveAll(s.root)
	uerr := modzip.Unzip(s.target, c15Mod, zipPath)
	outsideOK, onlyRegular, files, _, what := s.check()
	// the baseline is what CheckDir itself reported valid (CheckDir and the file list may
	// disagree: see the dir-vs-list predicate above)
	dvalid := rel(dcf.Valid)
	ok := uerr == nil && outsideOK && onlyRegular && len(files) == len(dvalid)
	for _, p := range dvalid {
		n, have := files[p]
		src, _ := os.ReadFile(filepath.Join(root, filepath.FromSlash(p)))
		if !have || n.size != int64(len(src)) || (n.size <= 1<<16 && n.data != string(src)) {
			ok = false
			what = "differs: " + p
		}
	}
	c.Direct(ok, "roundtrip", "CreateFromDir → Unzip does not reproduce the valid files: "+what+" "+fmt.Sprint(uerr), words)
	c.Trace()
}

// c15NamesFit: no element exceeds NAME_MAX (255 bytes) and no path PATH_MAX of the host
func c15NamesFit(names []string) bool {
	for _, n := range names {
		if len(n) > 3000 {
			return false
		}
		for _, e := range strings.Split(n, "/") {
			if len(e) > 255 {
				return false
			}
		}
	}
	return true
}

// c15WitnessEmptyCueMod replays the minimal witness of the known finding on the real code:
// {cue.mod/module.cue, sub/x.cue} plus an EMPTY directory sub/cue.mod.
func c15WitnessEmptyCueMod(c *Cfg, base string) {
	root := filepath.Join(base, "witness-empty-cuemod")
	defer os.RemoveAll(root)
	os.MkdirAll(filepath.Join(root, "cue.mod"), 0o777)
	os.MkdirAll(filepath.Join(root, "sub", "cue.mod"), 0o777)
	os.WriteFile(filepath.Join(root, "cue.mod", "module.cue"), []byte("module: \"example.com/m@v0\"\nlanguage: version: \"v0.9.0\"\n"), 0o666)
	os.WriteFile(filepath.Join(root, "sub", "x.cue"), []byte("package sub\n"), 0o666)
	dcf, _ := modzip.CheckDir(root)
	list := []c15File{{path: "cue.mod/module.cue", kind: 'f', size: 51, clen: -1}, {path: "sub/x.cue", kind: 'f', size: 12, clen: -1}}
	lcf, _ := modzip.CheckFiles(list, c15FIO{})
	c.Direct(len(dcf.Valid) == len(lcf.Valid), "dir-vs-list-nested-cuemod",
		"CheckDir and CheckFiles disagree on {cue.mod/module.cue, sub/x.cue} + empty directory sub/cue.mod: the directory check omits sub/x.cue, the file-list check accepts it",
		map[string]any{"dir_valid": len(dcf.Valid), "list_valid": len(lcf.Valid)})
	// second mechanism: splitCUEMod reports only the innermost cue.mod of a path, so
	// a/cue.mod/b/cue.mod/x.cue does not mark a/ as a module for the file list
	os.RemoveAll(root)
	os.MkdirAll(filepath.Join(root, "cue.mod"), 0o777)
	os.MkdirAll(filepath.Join(root, "a", "cue.mod", "b", "cue.mod"), 0o777)
	os.WriteFile(filepath.Join(root, "cue.mod", "module.cue"), []byte("module: \"example.com/m@v0\"\nlanguage: version: \"v0.9.0\"\n"), 0o666)
	os.WriteFile(filepath.Join(root, "a", "y.cue"), []byte("package a\n"), 0o666)
	os.WriteFile(filepath.Join(root, "a", "cue.mod", "b", "cue.mod", "x.cue"), []byte("x: 1\n"), 0o666)
	dcf, _ = modzip.CheckDir(root)
	list = []c15File{{path: "a/cue.mod/b/cue.mod/x.cue", kind: 'f', size: 5, clen: -1}, {path: "a/y.cue", kind: 'f', size: 10, clen: -1},
		{path: "cue.mod/module.cue", kind: 'f', size: 51, clen: -1}}
	lcf, _ = modzip.CheckFiles(list, c15FIO{})
	c.Direct(len(dcf.Valid) == len(lcf.Valid), "dir-vs-list-nested-cuemod",
		"CheckDir and CheckFiles disagree on {cue.mod/module.cue, a/y.cue, a/cue.mod/b/cue.mod/x.cue}: the directory check omits a/y.cue, the file-list check accepts it",
		map[string]any{"dir_valid": len(dcf.Valid), "list_valid": len(lcf.Valid)})
}

// c15HostOK: every element is a usable name on the host (no NUL/empty/dot elements, ≤ 255 bytes)
func c15HostOK(p string) bool {
	for _, e := range strings.Split(p, "/") {
		if e == "" || e == "." || e == ".." || len(e) > 255 {
			return false
		}
	}
	return true
}

// ---- module.escapeString through EscapePath / EscapeVersion (cache directory names) --------------

func c15EscapeCases(c *Cfg, r *Rng) {
	if c.Focus {
		return
	}
	vs := []string{"v1.0.0", "v1.0.0-RC1", "v0.0.0-Alpha.Beta", "v1.2.3-A", "v1.0.0-rc.1+Build", "v1.0.0-a!b", "v1.0.0-é", "v2.0.0-X.Y.Z", "v1.0.0-CON"}
	for i := 0; i < 300; i++ {
		var sb strings.Builder
		sb.WriteString("v1.0.0-")
		for k := 0; k < 1+r.Intn(6); k++ {
			sb.WriteString(Pick(r, []string{"a", "A", "Z", "z", "0", "-", ".", "B", "m"}))
		}
		vs = append(vs, sb.String())
	}
	for _, v := range vs {
		esc, err := module.EscapeVersion(v)
		if err != nil {
			c.Count("escape/rejected")
			continue
		}
		c.Op("I", "escape "+H(v), "ok "+H(esc))
		c.Direct(esc == strings.ToLower(esc) || !strings.ContainsAny(esc, "ABCDEFGHIJKLMNOPQRSTUVWXYZ"), "escape-upper", "escaped version contains an upper-case letter", v)
		c.Count("escape/ok")
	}
}

func runC15(c *Cfg) {
	r := NewRng(c.Seed)
	base, err := os.MkdirTemp("", "C15-harness-")
	if err != nil {
		fmt.Fprintln(os.Stderr, err)
		os.Exit(2)
	}
	defer os.RemoveAll(base)
	t0 := time.Now()
	lap := func(what string) {
		fmt.Fprintf(os.Stderr, "C15 %s: %.1fs\n", what, time.Since(t0).Seconds())
		t0 = time.Now()
	}
	c15PathCases(c, r.Sub())
	lap("paths")
	c15FileCases(c, r.Sub())
	lap("file lists")
	c15ZipCases(c, r.Sub(), base)
	lap("archives")
	c15RoundTripCases(c, r.Sub(), base)
	lap("round trips")
	c15Par(r.Sub(), c.Pick(300, 4000), func(i int, rr *Rng) { c15DirCase(c, base, i, rr) })
	c15WitnessEmptyCueMod(c, base)
	lap("directories")
	c15EscapeCases(c, r.Sub())
	c15EscapeExt(c, r.Sub())
	c15WitnessDupOrder(c)
	c15JoinCases(c, r.Sub())
	lap("join")
	lap("escape")
}
