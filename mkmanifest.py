#!/usr/bin/env python3
"""Regenerates MANIFEST.json from props/Cxx.json + claims/Cxx.json (texts per property)."""
import json, os
here = os.path.dirname(os.path.abspath(__file__))
import glob
props = {os.path.basename(f)[:-5]: json.load(open(f)) for f in glob.glob(os.path.join(here, "props", "C*.json"))}
claims = {"claimed": {os.path.basename(f)[:-5]: json.load(open(f)) for f in glob.glob(os.path.join(here, "claims", "C*.json"))},
          "not_applicable": json.load(open(os.path.join(here, "claims", "not_applicable.json"))),
          "hook_commits": json.load(open(os.path.join(here, "claims", "hooks.json")))}
allp = [json.loads(l)["id"] for l in open(os.path.join(here, "properties.jsonl"))]
checks = []
for p in allp:
    if p not in props or p not in claims["claimed"]:
        continue
    c = claims["claimed"][p]
    checks.append({
        "property_id": p,
        "quick_cmd": f"./check {p} --tier quick",
        "thorough_cmd": f"./check {p} --tier thorough",
        "evidence_file": f"/verif/evidence/{p}.json",
        "replay_cmd_template": f"./check {p} --replay {{path}}",
        "engine": "lean4-proof+correspondence",
        "level_claimed": {"category": props[p].get("level", "proof"), "text": c["text"], "design_ref": c.get("design_ref", "DESIGN.md §3 " + p)},
        "level_note": c["note"],
        "technique": c["technique"],
    })
na = [{"property_id": p, "reason": claims["not_applicable"].get(p, "no check built yet: the Lean model, theorems and correspondence harness for this property are not written in this round (design in DESIGN.md §3)")}
      for p in allp if p not in [c["property_id"] for c in checks]]
m = {
    "version": 1,
    "setup_cmd": "./setup.sh",
    "hooks": {
        "guard": "verif",
        "enable": "go build -tags verif (the overlay harness build in harness/build.sh always passes -tags verif)",
        "baseline_off_cmd": "cd /repo && GOFLAGS=-mod=mod GOPROXY=off go test -vet=off -count=1 -timeout 25m ./...",
        "source_commits": claims.get("hook_commits", []),
        "add_only": True,
    },
    "engines": [
        {"name": "lean4-proof+correspondence", "path": "/verif/check",
         "serves_properties": [c["property_id"] for c in checks],
         "kind_free_text": "Lean 4 theorems about hand-written executable models (lean/CueVerif), tied to /repo on every run by (a) facts regenerated from the source by /verif/extract with bridge theorems and (b) a Go harness compiled into the working tree whose answers are diffed against the compiled Lean model (driver)"}],
    "checks": checks,
    "notes": "See DESIGN.md. A broken bridge theorem or a correspondence disagreement triggers a search for a concrete failing input; known genuine defects are listed in known-findings.txt.",
    "not_applicable": na,
}
json.dump(m, open(os.path.join(here, "MANIFEST.json"), "w"), indent=1, ensure_ascii=False)
print("claimed:", [c["property_id"] for c in checks])
