#!/usr/bin/env python3
"""repin.py Cxx — after a reviewed, intended change of /repo (a `fix:` commit) re-record the
source fingerprints in lean/CueVerif/Bridge/Cxx.lean from the freshly generated
lean/CueVerif/Gen/Cxx.lean.  Only for pins (`pin_*`), never for translated tables; to be
followed by `./check Cxx`, which must show 0 disagreements (the model still describes the
changed functions) before the new pins are committed."""
import re, sys, os, subprocess, tempfile, glob
here = os.path.dirname(os.path.abspath(__file__))
p = sys.argv[1]
ex = os.path.join(here, "extract")
files = ["main.go", "translate.go"] + sorted(os.path.basename(f) for f in glob.glob(os.path.join(ex, "lib_*.go"))) + sorted(os.path.basename(f) for f in glob.glob(os.path.join(ex, p.lower() + "*.go")))
with tempfile.TemporaryDirectory() as t:
    subprocess.check_call(["go", "build", "-o", os.path.join(t, "x")] + files, cwd=ex, env=dict(os.environ, GOFLAGS="-mod=mod", GOPROXY="off"))
    gen = subprocess.check_output([os.path.join(t, "x"), "-repo", os.environ.get("VERIF_REPO", "/repo"), "-gen", p], text=True)
pins = dict(re.findall(r'def (pin_\w+) : String := "([^"]*)"', gen))
bp = os.path.join(here, "lean", "CueVerif", "Bridge", p + ".lean")
s = open(bp).read()
n = 0
def sub(m):
    global n
    name, old = m.group(2), m.group(3)
    new = pins.get(name)
    if new is None or new == old:
        return m.group(0)
    n += 1
    print(f"  {name}: {old} -> {new}")
    return m.group(1) + new + m.group(4)
s2 = re.sub(r'(Gen\.' + p + r'\.(pin_\w+)\s*=\s*")([^"]*)(")', sub, s)
open(bp, "w").write(s2)
print(f"{p}: {n} pin(s) re-recorded")
