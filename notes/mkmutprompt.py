#!/usr/bin/env python3
"""mkmutprompt.py ID WT 'needs' 'testpkgs' ['avoid'] -> prompt text for a mutation agent"""
import json, sys
pid, wt, needs, testpkgs = sys.argv[1:5]
avoid = sys.argv[5] if len(sys.argv) > 5 else ""
p = {json.loads(l)['id']: json.loads(l) for l in open('/verif/properties.jsonl')}[pid]
t = open('/verif/notes/MUTANT_PROMPT.txt').read()
t = t.replace('{WT}', wt).replace('{ID}', pid).replace('{TITLE}', p['title']).replace('{STATEMENT}', p['statement'])
t = t.replace('{QUANT}', p['quantifier']['text']).replace('{NEEDS}', needs).replace('{TESTPKGS}', testpkgs).replace('{AVOID}', avoid)
print(t)
