#!/usr/bin/env python3
"""recordseed.py ID WORKDIR 'summary' 'needs' 'confirmed' 'first' ['after']  -> /verif/seeded/ID/{patch.diff,demo,agent-notes.md,meta.json}"""
import sys, os, json, shutil
sid, work, summary, needs, confirmed, first = sys.argv[1:7]
after = sys.argv[7] if len(sys.argv) > 7 else None
d = f"/verif/seeded/{sid}"
os.makedirs(d, exist_ok=True)
shutil.copy(f"{work}/patch.diff", f"{d}/patch.diff")
if os.path.isdir(f"{work}/demo"):
    shutil.rmtree(f"{d}/demo", ignore_errors=True); shutil.copytree(f"{work}/demo", f"{d}/demo")
if os.path.exists(f"{work}/notes.md"):
    shutil.copy(f"{work}/notes.md", f"{d}/agent-notes.md")
cr = {"first_version_of_check": first}
if after: cr["after_strengthening"] = after
json.dump({"property": sid.split('-')[0], "summary": summary, "needs_to_manifest": needs,
           "confirmed": {"by_agent_and_coordinator": confirmed}, "check_result": cr},
          open(f"{d}/meta.json", "w"), indent=1, ensure_ascii=False)
print("recorded", d)
